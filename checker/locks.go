package main

// E1 `lockflow` — must/may locksets per instruction, interprocedural entry sets, lock-order edges.

import (
	"sort"
	"strings"

	"golang.org/x/tools/go/ssa"
)

type LockSet map[string]bool

func (l LockSet) clone() LockSet {
	o := LockSet{}
	for k := range l {
		o[k] = true
	}
	return o
}
func (l LockSet) List() []string {
	var o []string
	for k := range l {
		o = append(o, k)
	}
	sort.Strings(o)
	return o
}
func (l LockSet) String() string { return "{" + strings.Join(l.List(), ",") + "}" }

type lockState struct{ must, may LockSet }

type lockFn struct {
	in        map[*ssa.BasicBlock]*lockState
	entryMust LockSet // nil = ⊤ (no caller seen yet)
	entryMay  LockSet
	done      bool
}

type lockEdge struct {
	from, to string
	at       ssa.Instruction
}

type lockEngine struct {
	p     *Prog
	fns   map[*ssa.Function]*lockFn
	edges []lockEdge
	// acquisition sites
	acquires []ssa.Instruction
	reacq    []ssa.Instruction // acquiring a lock that may already be held
}

// lockOp classifies a call: returns lock key and op ("lock","unlock") if it is a mutex operation.
func lockOp(cc *ssa.CallCommon) (key string, op string) {
	n := calleeName(cc)
	switch n {
	case "(*sync.Mutex).Lock", "(*sync.RWMutex).Lock", "(*sync.RWMutex).RLock":
		op = "lock"
	case "(*sync.Mutex).Unlock", "(*sync.RWMutex).Unlock", "(*sync.RWMutex).RUnlock":
		op = "unlock"
	default:
		return "", ""
	}
	if len(cc.Args) == 0 {
		return "", ""
	}
	return lockKeyOf(cc.Args[0]), op
}

func lockKeyOf(v ssa.Value) string {
	if fa, ok := v.(*ssa.FieldAddr); ok {
		if fk, ok := ownerKey(fa); ok {
			return fk.String()
		}
	}
	if g, ok := v.(*ssa.Global); ok {
		return "global:" + globalName(g)
	}
	return "?lock:" + v.Name()
}

func (p *Prog) Locks() *lockEngine {
	if p.locks != nil {
		return p.locks
	}
	e := &lockEngine{p: p, fns: map[*ssa.Function]*lockFn{}}
	p.locks = e
	for _, f := range p.Funcs {
		lf := &lockFn{in: map[*ssa.BasicBlock]*lockState{}, entryMay: LockSet{}}
		if len(p.Callers(f)) == 0 || p.isAPIEntry(f) || isGoOrEntry(p, f) {
			lf.entryMust = LockSet{}
		}
		e.fns[f] = lf
	}
	// fixpoint over entry sets
	for iter := 0; iter < 20; iter++ {
		changed := false
		for _, f := range p.Funcs {
			if e.analyze(f) {
				changed = true
			}
		}
		if !changed {
			break
		}
	}
	// final pass to collect edges and acquisition sites
	for _, f := range p.Funcs {
		e.collect(f)
	}
	return e
}

// isGoOrEntry: function used as a goroutine target anywhere (starts with the empty lockset).
func isGoOrEntry(p *Prog, f *ssa.Function) bool {
	for _, cs := range p.Callers(f) {
		if _, ok := cs.instr.(*ssa.Go); ok {
			return true
		}
	}
	return false
}

func (e *lockEngine) step(st *lockState, i ssa.Instruction, f *ssa.Function, propagate bool) {
	switch x := i.(type) {
	case *ssa.Call:
		if k, op := lockOp(&x.Call); op == "lock" {
			st.must[k] = true
			st.may[k] = true
			return
		} else if op == "unlock" {
			delete(st.must, k)
			delete(st.may, k)
			return
		}
		if propagate {
			e.propagateCall(x, st, f)
		}
	case *ssa.Go:
		if propagate {
			for _, g := range e.p.calleesOfValue(x.Call.Value, e.p.Origins()) {
				if lf := e.fns[g]; lf != nil && lf.entryMust == nil {
					lf.entryMust = LockSet{}
				} else if lf != nil {
					lf.entryMust = LockSet{}
				}
			}
		}
	case *ssa.Defer:
		// deferred unlock takes effect at RunDefers; deferred closures get the exit lockset (see RunDefers)
	case *ssa.RunDefers:
		// deferred closures run here, with the current lockset, before deferred unlocks (approximation
		// documented in DESIGN §2.1)
		if propagate {
			allInstrs(f, func(j ssa.Instruction) {
				if d, ok := j.(*ssa.Defer); ok {
					if _, op := lockOp(&d.Call); op != "" {
						return
					}
					// must: held both at registration and at exit
					reg := e.stateAt(d)
					ms := LockSet{}
					for k := range st.must {
						if reg != nil && reg.must[k] {
							ms[k] = true
						}
					}
					e.propagateTo(&d.Call, &lockState{must: ms, may: st.may.clone()})
				}
			})
		}
		allInstrs(f, func(j ssa.Instruction) {
			if d, ok := j.(*ssa.Defer); ok {
				if k, op := lockOp(&d.Call); op == "unlock" {
					delete(st.must, k)
					delete(st.may, k)
				}
			}
		})
	}
}

func (e *lockEngine) propagateCall(c *ssa.Call, st *lockState, f *ssa.Function) {
	e.propagateTo(&c.Call, st)
}

func (e *lockEngine) propagateTo(cc *ssa.CallCommon, st *lockState) {
	if cc.IsInvoke() {
		return
	}
	for _, g := range e.p.calleesOfValue(cc.Value, e.p.Origins()) {
		lf := e.fns[g]
		if lf == nil {
			continue
		}
		if lf.entryMust == nil {
			lf.entryMust = st.must.clone()
			lf.done = false
		} else {
			for k := range lf.entryMust {
				if !st.must[k] {
					delete(lf.entryMust, k)
					lf.done = false
				}
			}
		}
		for k := range st.may {
			if !lf.entryMay[k] {
				lf.entryMay[k] = true
				lf.done = false
			}
		}
	}
}

// analyze runs the intraprocedural dataflow for f with its current entry sets; returns true if
// anything (its own block states or callee entry sets) changed.
func (e *lockEngine) analyze(f *ssa.Function) bool {
	lf := e.fns[f]
	if lf.done {
		return false
	}
	lf.done = true
	em := lf.entryMust
	if em == nil {
		em = LockSet{} // never called from resolved code: treat as entry
	}
	lf.in = map[*ssa.BasicBlock]*lockState{}
	lf.in[f.Blocks[0]] = &lockState{must: em.clone(), may: lf.entryMay.clone()}
	work := []*ssa.BasicBlock{f.Blocks[0]}
	for len(work) > 0 {
		b := work[0]
		work = work[1:]
		st := &lockState{must: lf.in[b].must.clone(), may: lf.in[b].may.clone()}
		for _, i := range b.Instrs {
			e.step(st, i, f, true)
		}
		for si, s := range b.Succs {
			if deadEdge(b, si) {
				continue
			}
			old := lf.in[s]
			if old == nil {
				lf.in[s] = &lockState{must: st.must.clone(), may: st.may.clone()}
				work = append(work, s)
				continue
			}
			ch := false
			for k := range old.must {
				if !st.must[k] {
					delete(old.must, k)
					ch = true
				}
			}
			for k := range st.may {
				if !old.may[k] {
					old.may[k] = true
					ch = true
				}
			}
			if ch {
				work = append(work, s)
			}
		}
	}
	return true
}

// stateAt: lock state just before instruction i.
func (e *lockEngine) stateAt(i ssa.Instruction) *lockState {
	f := i.Parent()
	lf := e.fns[f]
	if lf == nil {
		return nil
	}
	in := lf.in[i.Block()]
	if in == nil {
		return nil
	}
	st := &lockState{must: in.must.clone(), may: in.may.clone()}
	for _, x := range i.Block().Instrs {
		if x == i {
			break
		}
		e.step(st, x, f, false)
	}
	return st
}

func (e *lockEngine) Must(i ssa.Instruction) LockSet {
	if st := e.stateAt(i); st != nil {
		return st.must
	}
	return LockSet{}
}
func (e *lockEngine) May(i ssa.Instruction) LockSet {
	if st := e.stateAt(i); st != nil {
		return st.may
	}
	return LockSet{}
}

func (e *lockEngine) collect(f *ssa.Function) {
	allInstrs(f, func(i ssa.Instruction) {
		cc := commonOf(i)
		if cc == nil {
			return
		}
		if _, isDefer := i.(*ssa.Defer); isDefer {
			return
		}
		k, op := lockOp(cc)
		if op != "lock" {
			return
		}
		e.acquires = append(e.acquires, i)
		st := e.stateAt(i)
		if st == nil {
			return
		}
		for h := range st.may {
			if h == k {
				e.reacq = append(e.reacq, i)
				continue
			}
			e.edges = append(e.edges, lockEdge{h, k, i})
		}
	})
}

// EdgeSet: distinct lock-order edges "a -> b".
func (e *lockEngine) EdgeSet() map[string][]ssa.Instruction {
	m := map[string][]ssa.Instruction{}
	for _, ed := range e.edges {
		k := ed.from + " -> " + ed.to
		m[k] = append(m[k], ed.at)
	}
	return m
}

// Cycle finds a cycle in the lock-order graph, if any.
func (e *lockEngine) Cycle() []string {
	adj := map[string][]string{}
	for _, ed := range e.edges {
		adj[ed.from] = append(adj[ed.from], ed.to)
	}
	color := map[string]int{}
	var stack []string
	var found []string
	var dfs func(n string) bool
	dfs = func(n string) bool {
		color[n] = 1
		stack = append(stack, n)
		for _, m := range adj[n] {
			if color[m] == 1 {
				// cycle
				for i, s := range stack {
					if s == m {
						found = append([]string{}, stack[i:]...)
						found = append(found, m)
						return true
					}
				}
			}
			if color[m] == 0 && dfs(m) {
				return true
			}
		}
		stack = stack[:len(stack)-1]
		color[n] = 2
		return false
	}
	var nodes []string
	for n := range adj {
		nodes = append(nodes, n)
	}
	sort.Strings(nodes)
	for _, n := range nodes {
		if color[n] == 0 && dfs(n) {
			return found
		}
	}
	return nil
}
