package internal
