module github.com/avos-io/goat

go 1.21
