package main

// E7 `shapes` — catalogue of constructed envelopes (allocations of goatorepo.Rpc with field stores).

import (
	"sort"
	"strings"

	"golang.org/x/tools/go/ssa"
)

type fieldShape struct {
	Stores   []*ssa.Store
	Must     bool // some store dominates every sink of the envelope
	MaybeNil bool // a stored value may be nil
	Origins  TermSet
}

type Envelope struct {
	Alloc   *ssa.Alloc // the allocation (inside the constructor helper when Via != nil)
	Via     *ssa.Call  // call of the constructor helper that creates this envelope instance, if any
	Fn      *ssa.Function // function in which the envelope instance is created and completed
	Side    string        // client | server | other
	Fields  map[string]*fieldShape
	Header  ssa.Value // nested header object root (local literal or constructor-helper call), if any
	HFields map[string]*fieldShape
	Sinks   []ssa.Instruction // instructions through which the envelope leaves the function
	Key     string
}

// Root: the SSA value that is this envelope instance in Fn.
func (e *Envelope) Root() ssa.Value {
	if e.Via != nil {
		return e.Via
	}
	return e.Alloc
}

// At: an instruction locating the instance (for positions and facts).
func (e *Envelope) At() ssa.Instruction {
	if e.Via != nil {
		return e.Via
	}
	return e.Alloc
}

var rpcFields = []string{"Id", "Header", "Status", "Body", "Trailer", "Reset_"}
var hdrFields = []string{"Method", "Headers", "Source", "Destination", "ProxyRecord", "ProxyNext"}

func (p *Prog) sideOf(f *ssa.Function) string {
	k := p.fnKey(rootFn(f))
	switch {
	case strings.HasPrefix(k, "client."), strings.HasPrefix(k, "goat.ClientConn."):
		return "client"
	case strings.HasPrefix(k, "server."), strings.HasPrefix(k, "goat.handler."):
		return "server"
	}
	return "other"
}

// sinksOf: uses of the allocation as a whole (call argument, return, send, store elsewhere), including
// through loads of single-assignment cells and captures.
func (p *Prog) sinksOf(root ssa.Value) []ssa.Instruction {
	var out []ssa.Instruction
	for _, al := range p.rootAliases(root) {
		refs := al.Referrers()
		if refs == nil {
			continue
		}
		for _, r := range *refs {
			switch x := r.(type) {
			case *ssa.FieldAddr:
				continue
			case ssa.CallInstruction:
				out = append(out, r)
			case *ssa.Return, *ssa.Send:
				out = append(out, r)
			case *ssa.Store:
				if x.Val == al {
					// stored into a cell: follow loads of that cell
					if cell, ok := x.Addr.(*ssa.Alloc); ok {
						for _, ca := range p.cellAliases(cell) {
							if cr := ca.Referrers(); cr != nil {
								for _, u := range *cr {
									if ld, ok := u.(*ssa.UnOp); ok {
										if lr := ld.Referrers(); lr != nil {
											for _, uu := range *lr {
												switch uu.(type) {
												case ssa.CallInstruction, *ssa.Return, *ssa.Send:
													out = append(out, uu)
												}
											}
										}
									}
								}
							}
						}
					} else {
						out = append(out, r)
					}
				}
			case *ssa.Select:
				out = append(out, r)
			case *ssa.MakeInterface:
				if rr := x.Referrers(); rr != nil {
					for _, u := range *rr {
						if _, ok := u.(ssa.CallInstruction); ok {
							out = append(out, u)
						}
					}
				}
			}
		}
	}
	return out
}

func (p *Prog) shapeOf(a ssa.Value, fields []string, sinks []ssa.Instruction) map[string]*fieldShape {
	e := p.Origins()
	m := map[string]*fieldShape{}
	for _, f := range fields {
		fs := &fieldShape{Origins: TermSet{}}
		fs.Stores = p.allocFieldStores(a, f)
		for _, s := range fs.Stores {
			o := e.Of(s.Val)
			fs.Origins.addAll(o)
			for _, t := range o {
				if t.Op == "const" && t.Name == "nil" {
					fs.MaybeNil = true
				}
			}
			dom := len(sinks) > 0
			if ca := p.ctorCall(a); ca != nil && s.Parent() == ca.Parent() {
				// a store inside the constructor helper: it must dominate the helper's returns
				dom = true
				for _, r := range returnsOf(ca.Parent()) {
					if !instrDominates(s, r) {
						dom = false
					}
				}
			} else {
				for _, sk := range sinks {
					if sk.Parent() != s.Parent() || sk.Block() == sk.Parent().Recover {
						continue
					}
					if !instrDominates(s, sk) {
						dom = false
					}
				}
			}
			if dom {
				fs.Must = true
			}
		}
		m[f] = fs
	}
	return m
}

// Envelopes: every constructed envelope instance in scope: Rpc allocations that have at least one field store,
// and calls of constructor helpers that return such an allocation (one instance per call site).
func (p *Prog) Envelopes() []*Envelope {
	if p.envMemo != nil {
		return p.envMemo
	}
	var out []*Envelope
	build := func(env *Envelope) {
		root := env.Root()
		env.Side = p.sideOf(env.Fn)
		env.Sinks = p.sinksOf(root)
		env.Fields = p.shapeOf(root, rpcFields, env.Sinks)
		if hs := env.Fields["Header"].Stores; len(hs) == 1 {
			if ha, isAl := hs[0].Val.(*ssa.Alloc); isAl && env.Via != nil && ha.Parent() == env.Alloc.Parent() {
				// the header literal lives inside the constructor helper; the caller may complete it through
				// <instance>.Header.<field>: keep that instance-sensitive
				env.Header = ha
				env.HFields = map[string]*fieldShape{}
				for _, hf := range hdrFields {
					fs := &fieldShape{Origins: TermSet{}}
					for _, st := range p.allocFieldStoresRaw(ha, hf) {
						if st.Parent() == ha.Parent() {
							fs.Stores = append(fs.Stores, st)
							dom := true
							for _, r := range returnsOf(ha.Parent()) {
								if !instrDominates(st, r) {
									dom = false
								}
							}
							if dom {
								fs.Must = true
							}
						}
					}
					for _, st := range p.nestedFieldStores(env.Via, "Header", hf) {
						fs.Stores = append(fs.Stores, st)
						dom := len(env.Sinks) > 0
						for _, sk := range env.Sinks {
							if sk.Parent() == st.Parent() && !instrDominates(st, sk) {
								dom = false
							}
						}
						if dom {
							fs.Must = true
						}
					}
					for _, st := range fs.Stores {
						o := p.Origins().Of(st.Val)
						fs.Origins.addAll(o)
						for _, t := range o {
							if t.Op == "const" && t.Name == "nil" {
								fs.MaybeNil = true
							}
						}
					}
					env.HFields[hf] = fs
				}
			} else if hr := p.rootOfBase(hs[0].Val); hr != nil {
				env.Header = hr
				env.HFields = p.shapeOf(hr, hdrFields, env.Sinks)
			} else if ha := p.Origins().localAlloc(hs[0].Val); ha != nil {
				env.Header = ha
				env.HFields = p.shapeOf(ha, hdrFields, env.Sinks)
			}
		}
		env.Key = p.fnKey(env.Fn) + ":" + env.ShapeString()
		out = append(out, env)
	}
	for _, f := range p.Funcs {
		allInstrs(f, func(i ssa.Instruction) {
			a, ok := i.(*ssa.Alloc)
			if !ok || typeKey(a.Type()) != "pb.Rpc" {
				return
			}
			hasStore := false
			for _, fn := range rpcFields {
				if len(p.allocFieldStores(a, fn)) > 0 {
					hasStore = true
				}
			}
			if !hasStore {
				return
			}
			if p.ctorAlloc(f) == a {
				// a constructor helper: one envelope instance per call site
				n := 0
				for _, cs := range p.Callers(f) {
					if call, ok := cs.instr.(*ssa.Call); ok {
						n++
						build(&Envelope{Alloc: a, Via: call, Fn: cs.caller})
					}
				}
				if n > 0 {
					return
				}
			}
			build(&Envelope{Alloc: a, Fn: f})
		})
	}
	sort.SliceStable(out, func(i, j int) bool { return out[i].Key < out[j].Key })
	p.envMemo = out
	return out
}

// ShapeString: e.g. "Id+Header+Body?" (? = conditionally present).
func (e *Envelope) ShapeString() string {
	var parts []string
	for _, f := range rpcFields {
		fs := e.Fields[f]
		if len(fs.Stores) == 0 {
			continue
		}
		s := f
		if !fs.Must || fs.MaybeNil {
			s += "?"
		}
		parts = append(parts, s)
	}
	return strings.Join(parts, "+")
}

// nestedFieldStores: stores to <root>.<outer>.<inner> made through the bases of root in its user function
// (e.g. rpc.Header.Headers = … where rpc is a constructor-helper call).
func (p *Prog) nestedFieldStores(root ssa.Value, outer, inner string) []*ssa.Store {
	var out []*ssa.Store
	for b := range p.allocBases(root) {
		refs := b.Referrers()
		if refs == nil {
			continue
		}
		for _, r := range *refs {
			fa, ok := r.(*ssa.FieldAddr)
			if !ok || fa.X != b || fieldName(fa) != outer {
				continue
			}
			if fr := fa.Referrers(); fr != nil {
				for _, u := range *fr {
					ld, ok := u.(*ssa.UnOp)
					if !ok || ld.X != ssa.Value(fa) {
						continue
					}
					if lr := ld.Referrers(); lr != nil {
						for _, u2 := range *lr {
							fa2, ok := u2.(*ssa.FieldAddr)
							if !ok || fa2.X != ssa.Value(ld) || fieldName(fa2) != inner {
								continue
							}
							if f2 := fa2.Referrers(); f2 != nil {
								for _, u3 := range *f2 {
									if st, ok := u3.(*ssa.Store); ok && st.Addr == ssa.Value(fa2) {
										out = append(out, st)
									}
								}
							}
						}
					}
				}
			}
		}
	}
	return out
}
