package main

func allLocks(string) bool { return true }

func init() {
	register(&propSpec{
		id: "C11",
		explanation: "Structural necessary conditions of 'an abandoned stream never wedges its connection', decided on the SSA of /repo: (C11.1) no blocking primitive (send, receive, select, transport Read/Write, blocking callback) executes while one of the five registry locks may be held, computed with an interprocedural must/may lockset dataflow and a blocking-primitive inventory; (C11.2) the lock-order graph is acyclic and no mutex is re-acquired; (C11.4) both stream teardown paths reach the unregister call. Behaviour (that probe RPCs complete) is NOT decided.",
		ruleText: "obligation = one blocking primitive under a registry lock, one critical section, one lock-order graph, one teardown path; non-trivial = needed a lockset, call-graph or path computation",
		assumptions: []string{"callbacks listed as non-blocking in the contract table are", "transports honour their context", "go/ssa + go/types of x/tools v0.29.0 are correct"},
		run: func(c *Ctx, thorough bool) {
			c.guard("C11.1", func() { ruleNoBlockUnderRegistryLock(c, "C11.1", allLocks) })
			c.guard("C11.2", func() { ruleLockOrder(c, "C11.2") })
		},
	})
}

func runPositiveControls() {}
func runSeededCorpus(pid, repo string) map[string]any { return map[string]any{"variants": 0} }

var baseAssumptions = []string{
	"go/packages, go/types and go/ssa of golang.org/x/tools v0.29.0 are correct",
	"protobuf, grpc/status, grpc/metadata, encoding/base64 and context behave as documented (used as axioms)",
	"transports deliver in order and honour their context",
	"user handlers do not touch a stream after returning; services are registered before serving",
	"only a structural necessary condition is decided; the run-time behaviour is not",
}

func init() {
	register(&propSpec{
		id: "C01",
		explanation: "Structural necessary conditions of 'a unary call returns exactly the handler's reply to exactly the caller's request', decided on the SSA of /repo without running it: atomic fresh ids (C01.1), one id per call registered/unregistered/sent (C01.2), registration dominates the request write (C01.3), replies echo the inbound id (C01.4), dispatch is a registry lookup keyed by the id of the very envelope forwarded (C01.5), each request reaches one dispatch site, one processUnaryRpc call, one handler invocation, one hand-off (C01.6), payload provenance is Materialize(Marshal(x)) / &received.Body.Data with no altering step (C01.7), handlers run only behind the header/method/destination/service gate (C01.8). Equality of decoded and sent payloads and the 64-caller interleavings are NOT decided.",
		ruleText: "obligation = one rule instance (access, call site, envelope field, path); non-trivial = decided through dominance, a path search or a provenance chain",
		assumptions: baseAssumptions,
		run: func(c *Ctx, thorough bool) {
			c.guard("C01.1", func() { ruleAtomicIds(c, "C01.1") })
			c.guard("C01.2", func() { ruleOneIdPerCall(c, "C01.2") })
			c.guard("C01.3", func() { ruleRegisterBeforeWrite(c, "C01.3") })
			c.guard("C01.4", func() { ruleReplyEchoesId(c, "C01.4") })
			c.guard("C01.5", func() { ruleDispatchById(c, "C01.5") })
			c.guard("C01.6", func() { ruleHandlerExactlyOnce(c, "C01.6") })
			c.guard("C01.7", func() { rulePayloadProvenance(c, "C01.7") })
		},
	})
}
