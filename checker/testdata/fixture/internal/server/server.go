package server
