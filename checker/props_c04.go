package main

import (
	"go/types"
	"fmt"
	"go/token"
	"strings"

	"golang.org/x/tools/go/ssa"
)

// ---- C04.1 / C04.2: converter agreement (E10) ----
func ruleConverterAgreement(c *Ctx, rule string) {
	p := c.p
	e := p.Origins()
	enc := p.MustFn("int.ToKeyValue")
	dec := p.MustFn("int.ToMetadata")
	type side struct {
		f        *ssa.Function
		b64Name  string
		b64Calls []ssa.CallInstruction
	}
	sides := []*side{{f: enc, b64Name: "EncodeToString"}, {f: dec, b64Name: "DecodeString"}}
	var encObjs [2]string
	for k, s := range sides {
		s.b64Calls = p.callsTo(s.f, "encoding/base64.Encoding)."+s.b64Name, false)
		ok := len(s.b64Calls) == 1
		c.check(rule, p.fnKey(s.f)+":base64-site", ok, fmt.Sprintf("%d base64 %s sites", len(s.b64Calls), s.b64Name), p.pos(s.f.Pos()))
		if !ok {
			continue
		}
		obj := e.Of(s.b64Calls[0].Common().Args[0])
		encObjs[k] = obj.String()
		// executed exactly under the binary-key predicate
		fs := p.Facts(s.b64Calls[0].(ssa.Instruction))
		okPred := false
		for _, hs := range p.callsTo(s.f, "strings.HasSuffix", false) {
			suf, isC := constString(hs.Common().Args[1])
			arg := e.Of(hs.Common().Args[0])
			lower := arg.ContainsMatch("call(strings.ToLower,_)")
			c.check(rule, p.fnKey(s.f)+":bin-predicate", isC && suf == "-bin" && lower, fmt.Sprintf("binary-key predicate is HasSuffix(ToLower(key), %q) (lower-cased: %v)", suf, lower), p.ipos(hs.(ssa.Instruction)))
			if fs.True(p.lpath(hs.(*ssa.Call))) {
				okPred = true
			}
		}
		c.check(rule, p.fnKey(s.f)+":base64-under-predicate", okPred, "the base64 step executes exactly on the -bin branch: "+fs.String(), p.ipos(s.b64Calls[0].(ssa.Instruction)))
	}
	c.check(rule, "base64-encoding-object", encObjs[0] != "" && encObjs[0] == encObjs[1], fmt.Sprintf("encoder uses %s, decoder uses %s (they must be the same encoding object; no test executes the base64 step)", encObjs[0], encObjs[1]))
	// decoder lower-cases the key it stores under; value appended to the existing per-key list
	n := 0
	allInstrs(dec, func(i ssa.Instruction) {
		mu, ok := i.(*ssa.MapUpdate)
		if !ok {
			return
		}
		n++
		k := e.Of(mu.Key)
		okK, _ := k.AllMatch("call(strings.ToLower,field(Key,_))")
		c.check(rule, "ToMetadata:key-lowercased", okK, "stored key is ToLower(kv.Key): "+k.String(), p.ipos(i))
		v := e.Of(mu.Value)
		okV, _ := v.AllMatch("append(lookup(_,$K),list(_))", "append(lookup(_,_),list(_))")
		c.check(strings.Replace(rule, ".1", ".2", 1), "ToMetadata:append-per-key", okV, "per-key values are appended in arrival order to the existing list (not prepended / overwritten): "+v.String(), p.ipos(i))
	})
	c.floor(rule, "map updates in ToMetadata", n, 1)
	// encoder: output list extended by append(h, &KeyValue{Key: k, Value: v}) inside forward ranges
	okApp := false
	allInstrs(enc, func(i ssa.Instruction) {
		if cl, ok := i.(*ssa.Call); ok {
			if b, ok := cl.Call.Value.(*ssa.Builtin); ok && b.Name() == "append" {
				o := e.Of(cl)
				if ok2, _ := o.AllMatch("append(_,list(alloc(*)))"); ok2 {
					// first operand is the accumulator (phi of itself)
					if _, isPhi := cl.Call.Args[0].(*ssa.Phi); isPhi {
						okApp = true
					}
				}
			}
		}
	})
	c.check(strings.Replace(rule, ".1", ".2", 1), "ToKeyValue:append-accumulator", okApp, "output is extended by append(acc, &KeyValue{…})", p.pos(enc.Pos()))
	// KeyValue literal: Key ← range key, Value ← (possibly encoded) range value
	allInstrs(enc, func(i ssa.Instruction) {
		a, ok := i.(*ssa.Alloc)
		if !ok || typeKey(a.Type()) != "pb.KeyValue" {
			return
		}
		ks := p.allocFieldStores(a, "Key")
		vs := p.allocFieldStores(a, "Value")
		okKV := len(ks) == 1 && len(vs) == 1
		if okKV {
			ko := e.Of(ks[0].Val)
			vo := e.Of(vs[0].Val)
			k1, _ := ko.AllMatch("rangekey(_)")
			v1, _ := vo.AllMatch("elem(rangeval(_))", "call(*EncodeToString,_,conv(*,elem(rangeval(_))))")
			okKV = k1 && v1
			c.check(rule, "ToKeyValue:pair", okKV, "Key ← "+ko.String()+" ; Value ← "+vo.String(), p.ipos(a))
		} else {
			c.check(rule, "ToKeyValue:pair", false, "KeyValue literal without exactly one Key and one Value store", p.ipos(a))
		}
	})
}

// ---- C04.3: every metadata hop goes through the converters ----
func ruleMetadataHops(c *Ctx, rule string) {
	p := c.p
	e := p.Origins()
	hop := func(name string, v ssa.Value, at ssa.Instruction, pats ...string) {
		o := e.Of(v)
		ok, why := o.AllMatch(pats...)
		c.check(rule, name, ok, why, p.ipos(at))
	}
	// 1. request headers, unary and open
	inv := p.MustFn("goat.ClientConn.invoke")
	for _, f := range p.Funcs {
		if rootFn(f) != inv {
			continue
		}
		allInstrs(f, func(i ssa.Instruction) {
			if a, ok := i.(*ssa.Alloc); ok && typeKey(a.Type()) == "pb.RequestHeader" {
				st := p.allocFieldStores(a, "Headers")
				if len(st) != 1 {
					c.check(rule, "invoke:request-headers", false, "request header literal without Headers", p.ipos(a))
					return
				}
				hop("invoke:request-headers", st[0].Val, a, "call(goat.headersFromContext,_)")
			}
		})
	}
	ns := p.envelopeIn("goat.ClientConn.newStream")
	if ns.HFields == nil || len(ns.HFields["Headers"].Stores) != 1 {
		c.check(rule, "newStream:request-headers", false, "open envelope has no Headers store", p.ipos(ns.At()))
	} else {
		hop("newStream:request-headers", ns.HFields["Headers"].Stores[0].Val, ns.Alloc, "call(goat.headersFromContext,_)")
	}
	hfc := p.MustFn("goat.headersFromContext")
	okFO := false
	for _, ci := range p.callsTo(hfc, "int.ToKeyValue", false) {
		if e.Of(ci.Common().Args[0]).ContainsMatch("call(*metadata.FromOutgoingContext#0,_)") {
			for _, fo := range p.callsTo(hfc, "metadata.FromOutgoingContext", false) {
				if p.sameValue(fo.Common().Args[0], paramNamed(hfc, "ctx")) {
					okFO = true
				}
			}
		}
	}
	c.check(rule, "headersFromContext:outgoing-metadata", okFO, "request headers are ToKeyValue(metadata.FromOutgoingContext(ctx))", p.pos(hfc.Pos()))
	for _, r := range returnsOf(hfc) {
		o := e.Of(retVals(r)[0])
		c.check(rule, "headersFromContext:result", o.ContainsMatch("call(int.ToKeyValue,...)"), "the returned list contains the converted metadata: "+o.String(), p.ipos(r))
	}
	// 2. handler context ← NewIncomingContext(parent, ToMetadata(h.Headers))
	cfh := p.MustFn("goat.contextFromHeaders")
	for _, ci := range p.callsTo(cfh, "metadata.NewIncomingContext", false) {
		hop("contextFromHeaders:incoming-metadata", ci.Common().Args[1], ci.(ssa.Instruction), "call(int.ToMetadata#0,field(Headers,_))")
		for _, tm := range p.callsTo(cfh, "int.ToMetadata", false) {
			c.check(rule, "contextFromHeaders:ToMetadata-arg", p.lpath(tm.Common().Args[0]) == "p:h.Headers", "the metadata decoded is the given header's Headers ("+p.lpath(tm.Common().Args[0])+")", p.ipos(tm.(ssa.Instruction)))
		}
	}
	c.floor(rule, "NewIncomingContext sites", len(p.callsTo(cfh, "metadata.NewIncomingContext", false)), 1)
	for _, fk := range []string{"goat.handler.processUnaryRpc", "goat.handler.processStreamingRpc"} {
		f := p.MustFn(fk)
		cs := p.callsTo(f, "goat.contextFromHeaders", false)
		for _, ci := range cs {
			want := p.fieldOfParam(f, "pb.Rpc", "Header")
			got := e.Of(ci.Common().Args[1])
			c.check(rule, fk+":contextFromHeaders-arg", sameTermSet(got, want), "handler context is built from the inbound envelope's header: "+got.String(), p.ipos(ci.(ssa.Instruction)))
		}
		c.floor(rule, "contextFromHeaders calls in "+fk, len(cs), 1)
	}
	// 3. stream response headers / trailers
	for _, fk := range []string{"server.serverStream.setHeader", "server.serverStream.SendMsg", "server.serverStream.SendTrailer"} {
		env := p.envelopeIn(fk)
		hs := env.HFields["Headers"].Stores
		if len(hs) != 1 {
			c.check(rule, fk+":response-headers", false, "no single Headers store", p.ipos(env.At()))
			continue
		}
		cl, ok := hs[0].Val.(*ssa.Call)
		okH := ok && cl.Call.StaticCallee() != nil && p.fnKey(cl.Call.StaticCallee()) == "int.ToKeyValue" && strings.HasSuffix(p.lpath(cl.Call.Args[0]), ".protected.headers")
		c.check(rule, fk+":response-headers", okH, "response header metadata is ToKeyValue(accumulated headers...)", p.ipos(hs[0]))
	}
	tenv := p.envelopeIn("server.serverStream.SendTrailer")
	okT := false
	for _, t := range tenv.Fields["Trailer"].Origins {
		if al, ok := e.allocs[t.Name].(*ssa.Alloc); ok {
			for _, s := range p.allocFieldStores(al, "Metadata") {
				if cl, ok := s.Val.(*ssa.Call); ok && cl.Call.StaticCallee() != nil && p.fnKey(cl.Call.StaticCallee()) == "int.ToKeyValue" && strings.HasSuffix(p.lpath(cl.Call.Args[0]), ".protected.trailers") {
					okT = true
				}
			}
		}
	}
	c.check(rule, "SendTrailer:trailer-metadata", okT, "stream trailer metadata is ToKeyValue(accumulated trailers...)", p.ipos(tenv.At()))
	// 4. unary reply headers / trailers from the transport stream installed in the handler context
	pu := p.MustFn("goat.handler.processUnaryRpc")
	uenv := p.envelopeIn("goat.handler.processUnaryRpc")
	var sts ssa.Value
	for _, ci := range p.callsTo(pu, "grpc.NewContextWithServerTransportStream", false) {
		sts = stripConv(ci.Common().Args[1])
	}
	if sts == nil {
		panic(UnresolvedError{"NewContextWithServerTransportStream in processUnaryRpc"})
	}
	stsO := e.Of(sts).one().String()
	hop("processUnaryRpc:reply-headers", uenv.HFields["Headers"].Stores[0].Val, uenv.Alloc, "call(int.ToKeyValue,list(call(*GetHeaders,"+"$S)))")
	okSts := false
	for _, t := range e.Of(uenv.HFields["Headers"].Stores[0].Val) {
		env := map[string]string{}
		if Match(t, "call(int.ToKeyValue,list(call(*GetHeaders,$S)))", env) && env["S"] == fullString(e.Of(sts).one()) {
			okSts = true
		}
	}
	c.check(rule, "processUnaryRpc:reply-headers-object", okSts, "the headers sent are those collected by the object installed in the handler context ("+stsO+")", p.ipos(uenv.At()))
	okTr := false
	for _, t := range uenv.Fields["Trailer"].Origins {
		if al, ok := e.allocs[t.Name].(*ssa.Alloc); ok {
			for _, s := range p.allocFieldStores(al, "Metadata") {
				for _, mt := range e.Of(s.Val) {
					env := map[string]string{}
					if Match(mt, "call(int.ToKeyValue,list(call(*GetTrailers,$S)))", env) && env["S"] == fullString(e.Of(sts).one()) {
						okTr = true
					}
				}
			}
		}
	}
	c.check(rule, "processUnaryRpc:reply-trailers", okTr, "reply trailer metadata is ToKeyValue(sts.GetTrailers()) of the installed object", p.ipos(uenv.At()))
	// 5. client Header() / Trailer()
	rl := p.MustFn("client.clientStream.readLoop")
	_, rpc := p.readResult(rl)
	okHd := false
	for _, ci := range p.callsTo(rl, "int.ToMetadata", false) {
		if p.lpath(ci.Common().Args[0]) == p.lpath(rpc)+".Header.Headers" {
			md := extractOf(ci.(*ssa.Call), 0)
			// handed to onReady as the headers
			if md != nil {
				for _, u := range usesOf(md) {
					if cl, ok := u.(*ssa.Call); ok && len(p.calleesOfValue(cl.Call.Value, e)) == 1 {
						okHd = true
					}
				}
			}
		}
	}
	c.check(rule, "readLoop:first-response-headers", okHd, "Header() metadata is ToMetadata(first envelope's Header.Headers), handed to the ready latch", p.pos(rl.Pos()))
	// a latch release that reports success carries the metadata decoded from the envelope just read: releasing
	// with (nil error, no metadata) — e.g. because the final-status check ran first — silently loses headers that
	// travel on the same envelope as the status
	onReady := p.latchReleaseFn()
	nrel := 0
	allInstrs(rl, func(i ssa.Instruction) {
		cl, ok := i.(*ssa.Call)
		if !ok || cl.Call.IsInvoke() {
			return
		}
		isRel := false
		for _, g := range p.calleesOfValue(cl.Call.Value, e) {
			if g == onReady {
				isRel = true
			}
		}
		if !isRel {
			return
		}
		var errArg, mdArg ssa.Value
		for _, a := range cl.Call.Args {
			switch {
			case types.Identical(a.Type(), types.Universe.Lookup("error").Type()):
				errArg = a
			case strings.HasSuffix(typeStr(a.Type()), "metadata.MD"):
				mdArg = a
			}
		}
		if errArg == nil || mdArg == nil {
			c.undecided(rule, "readLoop:latch-release-args", "cannot tell the error and metadata arguments of the latch release", p.ipos(i))
			return
		}
		nrel++
		if !isNilConst(errArg) {
			return
		}
		okMd := false
		if ex, ok := mdArg.(*ssa.Extract); ok {
			if tc, ok := ex.Tuple.(*ssa.Call); ok && tc.Call.StaticCallee() != nil && p.fnKey(tc.Call.StaticCallee()) == "int.ToMetadata" && p.lpath(tc.Call.Args[0]) == p.lpath(rpc)+".Header.Headers" {
				okMd = true
			}
		}
		c.check(rule, "readLoop:successful-release-carries-decoded-headers", okMd, "a latch release with a nil error hands over ToMetadata(envelope.Header.Headers) of the envelope just read", p.ipos(i))
	})
	c.floor(rule, "latch releases in the stream read loop", nrel, 3)
	hdrF := p.MustFn("client.clientStream.Header")
	for _, r := range returnsOf(hdrF) {
		v := retVals(r)[0]
		c.check(rule, "Header:returns-stored-header", strings.HasSuffix(p.lpath(v), ".header"), "Header() returns the stored first-response metadata ("+p.lpath(v)+")", p.ipos(r))
	}
	tr := p.MustFn("client.clientStream.Trailer")
	nt := 0
	for _, ci := range p.callsTo(tr, "int.ToMetadata", false) {
		nt++
		c.check(rule, "Trailer:source", strings.HasSuffix(p.lpath(ci.Common().Args[0]), ".protected.trailer.Metadata"), "Trailer() converts the stored trailer's Metadata ("+p.lpath(ci.Common().Args[0])+")", p.ipos(ci.(ssa.Instruction)))
	}
	c.floor(rule, "ToMetadata calls in Trailer()", nt, 1)
	// the stored trailer is the trailer of the envelope that ended the stream
	okEnd := false
	allInstrs(rl, func(i ssa.Instruction) {
		if s, ok := i.(*ssa.Store); ok {
			if p.locPath(s.Addr) == "cell:trailer" && p.lpath(s.Val) == p.lpath(rpc)+".Trailer" {
				fs := p.Facts(i)
				for k := range fs {
					if strings.HasPrefix(k, "true(") && strings.Contains(k, "#0") {
						okEnd = true
					}
				}
			}
		}
	})
	c.check(rule, "readLoop:trailer-of-final-envelope", okEnd, "the trailer kept for Trailer() is the Trailer of the envelope for which errorIfDone reported done", p.pos(rl.Pos()))
}

// ---- C04.4: header typestate ----
func ruleHeaderTypestate(c *Ctx, rule string) {
	p := c.p
	flag := "p:ss.protected.headersSent"
	for _, fk := range []string{"server.serverStream.SendMsg", "server.serverStream.SendTrailer"} {
		env := p.envelopeIn(fk)
		hs := env.HFields["Headers"].Stores
		if len(hs) != 1 {
			c.check(rule, fk+":headers-once", false, "expected one conditional Headers store", p.ipos(env.At()))
			continue
		}
		fs := p.Facts(hs[0])
		c.check(rule, fk+":headers-only-if-unsent", fs.False(flag), "header metadata is attached only under fact ¬headersSent: "+fs.String(), p.ipos(hs[0]))
		// the same branch records that headers left
		set := false
		allInstrs(env.Fn, func(i ssa.Instruction) {
			if s, ok := i.(*ssa.Store); ok && p.locPath(s.Addr) == flag {
				if k, isC := s.Val.(*ssa.Const); isC && k.Value.ExactString() == "true" && s.Block() == hs[0].Block() {
					set = true
				}
			}
		})
		c.check(rule, fk+":sets-headersSent", set, "the branch that attaches the headers also stores headersSent = true (otherwise headers repeat on every message)", p.ipos(hs[0]))
		// once the flag says "sent", the envelope carrying the headers is written on every path (an early return in
		// between — e.g. a marshal error — leaves the flag set and the headers are never sent at all)
		ws := p.transportOps(env.Fn, "Write", false)
		allInstrs(env.Fn, func(i ssa.Instruction) {
			st, ok := i.(*ssa.Store)
			if !ok || p.locPath(st.Addr) != flag {
				return
			}
			if k, isC := st.Val.(*ssa.Const); !isC || k.Value.ExactString() != "true" {
				return
			}
			bad := p.mustPass(i, func(j ssa.Instruction) bool {
				for _, w := range ws {
					if j == ssa.Instruction(w) {
						return true
					}
				}
				return false
			}, false)
			where := ""
			if bad != nil {
				where = p.ipos(bad)
			}
			c.check(rule, fk+":flag-then-write", bad == nil, "after headersSent = true every path writes the envelope that carries the headers; the path to "+where+" returns without writing it", p.ipos(i), where)
		})
	}
	sh := p.MustFn("server.serverStream.setHeader")
	env := p.envelopeIn("server.serverStream.setHeader")
	ws := p.transportOps(sh, "Write", false)
	if len(ws) != 1 {
		panic(UnresolvedError{"the header Write in setHeader"})
	}
	fs := p.Facts(ws[0])
	c.check(rule, "setHeader:write-only-if-unsent", fs.False(flag), "explicit header envelope is written only under ¬headersSent: "+fs.String(), p.ipos(ws[0]))
	_ = env
	set := false
	allInstrs(sh, func(i ssa.Instruction) {
		if s, ok := i.(*ssa.Store); ok && p.locPath(s.Addr) == flag {
			if k, isC := s.Val.(*ssa.Const); isC && k.Value.ExactString() == "true" && instrDominates(ws[0], i) {
				set = true
			}
		}
	})
	c.check(rule, "setHeader:sets-headersSent", set, "a successful explicit send records headersSent = true", p.ipos(ws[0]))
	// SetHeader after headersSent fails: every accumulation happens under ¬headersSent
	allInstrs(sh, func(i ssa.Instruction) {
		if s, ok := i.(*ssa.Store); ok && p.locPath(s.Addr) == "p:ss.protected.headers" {
			c.check(rule, "setHeader:accumulate-only-if-unsent", p.Facts(i).False(flag), "headers are accumulated only while unsent (SetHeader after sending fails)", p.ipos(i))
		}
	})
	// same typestate on the unary collector (wherever the accumulation lives)
	nu := 0
	for _, st := range p.FieldStores(fieldKey{"server.unaryServerTransportStream", "headers"}) {
		if _, isCall := st.Val.(*ssa.Call); isCall {
			nu++
			c.check(rule, "unary.collector:accumulate-only-if-unsent", p.Facts(st).False("p:sts.headersSent"), "unary collector accepts headers only while unsent: "+p.Facts(st).String(), p.ipos(st))
		}
	}
	c.floor(rule, "header accumulations of the unary collector", nu, 1)
}

// ---- C04.5: accumulation ----
func ruleAccumulation(c *Ctx, rule string) {
	p := c.p
	e := p.Origins()
	chk := func(fk fieldKey, loc, name string) {
		n := 0
		for _, s := range p.FieldStores(fk) {
			i := ssa.Instruction(s)
			if p.isInitPhase(s.Addr.(*ssa.FieldAddr)) {
				continue
			}
			n++
			cl, isCall := s.Val.(*ssa.Call)
			okA := false
			if isCall {
				if b, isB := cl.Call.Value.(*ssa.Builtin); isB && b.Name() == "append" {
					okA = p.lpath(cl.Call.Args[0]) == loc
				}
				if calleeName(&cl.Call) == "google.golang.org/grpc/metadata.Join" {
					o := e.Of(cl)
					okA = o.ContainsMatch("call(*metadata.Join,list(_,_))") && joinsExisting(p, cl, loc)
				}
			}
			if _, isMk := s.Val.(*ssa.MakeMap); isMk {
				// initialisation of a nil map under fact isnil
				okA = p.Facts(i).IsNil(loc)
			}
			c.check(rule, name+":"+p.cname(s.Parent()), okA, "the accumulated list/map is extended (append/Join with the existing value), never replaced", p.ipos(i))
		}
		c.floor(rule, "stores to "+fk.String(), n, 1)
	}
	chk(fieldKey{"server.serverStream.protected", "headers"}, "p:ss.protected.headers", "serverStream.headers:append")
	chk(fieldKey{"server.serverStream.protected", "trailers"}, "p:ss.protected.trailers", "serverStream.trailers:append")
	chk(fieldKey{"server.unaryServerTransportStream", "headers"}, "p:sts.headers", "unary.headers:join")
	chk(fieldKey{"server.unaryServerTransportStream", "trailers"}, "p:sts.trailers", "unary.trailers:join")
}

func joinsExisting(p *Prog, cl *ssa.Call, loc string) bool {
	// metadata.Join(existing, md): the variadic slice's first element is a load of loc
	sl, ok := cl.Call.Args[0].(*ssa.Slice)
	if !ok {
		return false
	}
	al, ok := sl.X.(*ssa.Alloc)
	if !ok {
		return false
	}
	found := false
	if refs := al.Referrers(); refs != nil {
		for _, r := range *refs {
			if ia, ok := r.(*ssa.IndexAddr); ok {
				if idx, isC := constInt(ia.Index); isC && idx == 0 {
					if ir := ia.Referrers(); ir != nil {
						for _, u := range *ir {
							if st, ok := u.(*ssa.Store); ok && p.lpath(st.Val) == loc {
								found = true
							}
						}
					}
				}
			}
		}
	}
	return found
}

var _ = token.MUL
