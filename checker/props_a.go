package main

import "strings"

func allLocks(string) bool { return true }

func init() {
	register(&propSpec{
		id: "C11",
		explanation: "Structural necessary conditions of 'an abandoned stream never wedges its connection', decided on the SSA of /repo: (C11.1) no blocking primitive (send, receive, select, transport Read/Write, blocking callback) executes while one of the five registry locks may be held, computed with an interprocedural must/may lockset dataflow and a blocking-primitive inventory; (C11.2) the lock-order graph is acyclic and no mutex is re-acquired; (C11.4) both stream teardown paths reach the unregister call. Behaviour (that probe RPCs complete) is NOT decided.",
		ruleText: "obligation = one blocking primitive under a registry lock, one critical section, one lock-order graph, one teardown path; non-trivial = needed a lockset, call-graph or path computation",
		assumptions: []string{"callbacks listed as non-blocking in the contract table are", "transports honour their context", "go/ssa + go/types of x/tools v0.29.0 are correct"},
		run: func(c *Ctx, thorough bool) {
			c.guard("C11.1", func() { ruleNoBlockUnderRegistryLock(c, "C11.1", allLocks) })
			c.guard("C11.2", func() { ruleLockOrder(c, "C11.2") })
			c.guard("C11.3", func() { ruleStreamLockObservation(c, "C11.3") })
			c.guard("C11.5", func() { ruleLongHeldLockAcquisitions(c, "C11.5") })
			c.guard("C11.6", func() { ruleForwardEscapableByStream(c, "C11.6") })
			c.guard("C11.7", func() {
				rulePipeline(c, "C11.7", func(q queueSpec) bool {
					return strings.HasPrefix(q.name, "srvstream.") || q.name == "stream.respChan" || q.name == "unary.respChan"
				}, false)
			})
			c.guard("C11.4", func() {
				ruleClientRegistrationPairing(c, "C11.4")
				ruleTrailerBeforeUnregister(c, "C11.4")
			})
		},
	})
}


var baseAssumptions = []string{
	"go/packages, go/types and go/ssa of golang.org/x/tools v0.29.0 are correct",
	"protobuf, grpc/status, grpc/metadata, encoding/base64 and context behave as documented (used as axioms)",
	"transports deliver in order and honour their context",
	"user handlers do not touch a stream after returning; services are registered before serving",
	"only a structural necessary condition is decided; the run-time behaviour is not",
}

func init() {
	register(&propSpec{
		id: "C01",
		explanation: "Structural necessary conditions of 'a unary call returns exactly the handler's reply to exactly the caller's request', decided on the SSA of /repo without running it: atomic fresh ids (C01.1), one id per call registered/unregistered/sent (C01.2), registration dominates the request write (C01.3), replies echo the inbound id (C01.4), dispatch is a registry lookup keyed by the id of the very envelope forwarded (C01.5), each request reaches one dispatch site, one processUnaryRpc call, one handler invocation, one hand-off (C01.6), payload provenance is Materialize(Marshal(x)) / &received.Body.Data with no altering step (C01.7), handlers run only behind the header/method/destination/service gate (C01.8). Equality of decoded and sent payloads and the 64-caller interleavings are NOT decided.",
		ruleText: "obligation = one rule instance (access, call site, envelope field, path); non-trivial = decided through dominance, a path search or a provenance chain",
		assumptions: baseAssumptions,
		run: func(c *Ctx, thorough bool) {
			c.guard("C01.1", func() { ruleAtomicIds(c, "C01.1") })
			c.guard("C01.2", func() { ruleOneIdPerCall(c, "C01.2") })
			c.guard("C01.3", func() { ruleRegisterBeforeWrite(c, "C01.3") })
			c.guard("C01.4", func() { ruleReplyEchoesId(c, "C01.4") })
			c.guard("C01.5", func() { ruleDispatchById(c, "C01.5") })
			c.guard("C01.6", func() { ruleHandlerExactlyOnce(c, "C01.6") })
			c.guard("C01.7", func() { rulePayloadProvenance(c, "C01.7"); ruleCodecErrorsHonoured(c, "C01.7") })
			c.guard("C01.8", func() { ruleHandlerGate(c, "C01.8") })
			c.guard("C01.9", func() {
				// the shipped topologies and transports hand the very envelope on (rules shared with C16, C18, C19)
				ruleTransportPassThrough(c, "C01.9")
				ruleProxyForwardsSameEnvelopeOnce(c, "C01.9")
				ruleDemuxRouting(c, "C01.9", "C01.9")
				// a reply finds its way back through the proxies it came through
				ruleReturnRoute(c, "C01.9", nil)
			})
			c.guard("C01.10", func() {
				// one caller's failure does not take other callers' replies away; replies wait only for their queue
				ruleWhoPublishesFailure(c, "C01.10")
				ruleWaitingEscapable(c, "C01.10")
			})
		},
	})
}

func init() {
	register(&propSpec{
		id: "C02",
		explanation: "Structural necessary conditions of 'streams deliver every message once, in order, then the correct end-of-stream': queue/goroutine multiplicities along the path of a stream's envelopes match the frozen FIFO table (C02.1), no goroutine is started per envelope (C02.2), the body handed to RecvMsg is the Body of the envelope just read and an envelope is skipped only when it has no body (C02.3), io.EOF is returned only under facts trailer-present ∧ code OK (C02.4), the context branch of RecvMsg re-reads the terminal state because the library itself cancels the stream context at completion (C02.5), the only closer of the body queue is sequenced after its only sender (C02.6), half-close carries status OK + trailer and every path after the handler sends the trailer (C02.7). Liveness, counts and the interleavings themselves are NOT decided.",
		ruleText:    "obligation = one queue role set, go site, send/skip edge, return, or path; non-trivial = needed provenance, facts, dominance or a path search",
		assumptions: baseAssumptions,
		run: func(c *Ctx, thorough bool) {
			c.guard("C02.1", func() {
				rulePipeline(c, "C02.1", func(q queueSpec) bool {
					switch q.name {
					case "stream.respChan", "stream.rCh", "conn.writeChan", "conn.unaryRpcChan", "srvstream.ch":
						return true
					}
					return false
				}, true)
			})
			c.guard("C02.2", func() { rulePerEnvelopeGoroutines(c, "C02.2") })
			c.guard("C02.3", func() {
				ruleBodyForwarded(c, "C02.3")
				ruleStreamPayloadProvenance(c, "C02.3")
				ruleCodecErrorsHonoured(c, "C02.3")
			})
			c.guard("C02.4", func() { ruleEOFOnlyOnOKTrailer(c, "C02.4") })
			c.guard("C02.5", func() { ruleTerminalStateBeatsCancel(c, "C02.5") })
			c.guard("C02.6", func() {
				ruleCloseSendExclusion(c, "C02.6", func(d string) bool { return d == "rCh" })
				ruleNoDoubleClose(c, "C02.6", func(d string) bool { return d == "rCh" })
			})
			c.guard("C02.7", func() { ruleHalfCloseAndFinalStatus(c, "C02.7") })
			c.guard("C02.8", func() { ruleTransportPassThrough(c, "C02.8") })
			c.guard("C02.9", func() { ruleWaitingEscapable(c, "C02.9") })
			c.guard("C02.10", func() {
				// a stream receives its messages only if no other call is ever registered under its id
				ruleAtomicIds(c, "C02.10")
				ruleOneIdPerCall(c, "C02.10")
			})
		},
	})
	register(&propSpec{
		id: "C03",
		explanation: "Structural necessary conditions of 'the status a handler finishes with is the status the caller observes': every status conversion copies Code, Message and Details from the same-named fields of one source status (C03.1), a status is attached to the unary reply exactly under fact handler-error≠nil and the stream trailer is built from the handler's result (C03.2), both error→status conversions go through status.FromError and a non-nil error never yields OK (C03.3), every return of CallUnaryMethod is (proven non-nil body, nil) or (·, provably non-nil error) because invoke dereferences the body unconditionally (C03.4), a success return on the client receive path has fact Reset_==nil (C03.5), a reset cannot overtake the trailer because only the writer goroutine writes to the connection (C03.6). Code/message/detail values are NOT decided.",
		ruleText:    "obligation = one conversion site, return, or write site; non-trivial = needed provenance or facts",
		assumptions: baseAssumptions,
		run: func(c *Ctx, thorough bool) {
			c.guard("C03.1", func() { ruleStatusTransfer(c, "C03.1") })
			c.guard("C03.2", func() { ruleStatusIffFailed(c, "C03.2") })
			c.guard("C03.3", func() { ruleErrorToStatusSiblings(c, "C03.3") })
			c.guard("C03.4", func() { ruleValueOrError(c, "C03.4") })
			c.guard("C03.5", func() { ruleResetNeverSuccess(c, "C03.5"); ruleTerminalErrorIsStatus(c, "C03.5") })
			c.guard("C03.6", func() { ruleSingleWriter(c, "C03.6"); ruleTrailerBeforeUnregister(c, "C03.6") })
			c.guard("C03.7", func() {
				// the final status already buffered for a call is not raced by anything but the caller's own context: a wait
				// that also selects on the connection's context can return the transport error instead of the status
				ruleWaitingEscapable(c, "C03.7")
			})
		},
	})
}

func init() {
	register(&propSpec{
		id: "C04",
		explanation: "Structural necessary conditions of 'metadata, headers and trailers arrive intact': encoder and decoder use the same base64 encoding object, the same lower-cased '-bin' suffix predicate, and encode exactly where the other decodes (C04.1); per-key values are appended in order (C04.2); each of the metadata hops (request headers ×2, handler context ×2, stream headers ×3, stream trailers, unary reply headers/trailers, client Header()/Trailer()) goes through ToKeyValue/ToMetadata applied to the right source (C04.3); header metadata is attached only under ¬headersSent and the same branch sets the flag (C04.4); accumulation appends/joins, never replaces (C04.5). Byte exactness of values is NOT decided.",
		ruleText:    "obligation = one converter site, hop, typestate guard or accumulation store; non-trivial = needed provenance or facts",
		assumptions: baseAssumptions,
		run: func(c *Ctx, thorough bool) {
			c.guard("C04.1", func() { ruleConverterAgreement(c, "C04.1") })
			c.guard("C04.3", func() { ruleMetadataHops(c, "C04.3") })
			c.guard("C04.4", func() { ruleHeaderTypestate(c, "C04.4") })
			c.guard("C04.5", func() { ruleAccumulation(c, "C04.5") })
		},
	})
}

func isRegistryGuard(g guardEntry) bool {
	return g.field == "handlers" || g.field == "streams" || g.field == "rErr"
}

func init() {
	register(&propSpec{
		id: "C05",
		explanation: "Structural necessary conditions of 'multiplexed calls are isolated': ids are allocated only by sync/atomic.AddUint64(&counter, 1) (C05.1), every dispatch is a registry lookup keyed by the Id of the very envelope forwarded (C05.2), every non-init access to the two id registries happens with the registry mutex in the must-lockset (C05.3), the per-call queues have exactly the frozen single senders/receivers and no goroutine is started per envelope (C05.4), registry insertions are keyed by the call's own id / the open envelope's Id (C05.5). The interleaving space itself is NOT decided; id wrap-around of a uint64 incremented by one is noted as impossible in practice, not checked.",
		ruleText:    "obligation = one counter access, dispatch site, registry access, queue role set or insertion; non-trivial = needed locksets, provenance or path facts",
		assumptions: baseAssumptions,
		run: func(c *Ctx, thorough bool) {
			c.guard("C05.1", func() { ruleAtomicIds(c, "C05.1") })
			c.guard("C05.2", func() { ruleDispatchById(c, "C05.2") })
			c.guard("C05.3", func() { ruleGuardedFields(c, "C05.3", isRegistryGuard) })
			c.guard("C05.4", func() {
				rulePipeline(c, "C05.4", func(q queueSpec) bool {
					return q.name == "unary.respChan" || q.name == "stream.respChan" || q.name == "srvstream.ch" || q.name == "conn.writeChan"
				}, false)
				rulePerEnvelopeGoroutines(c, "C05.4")
			})
			c.guard("C05.5", func() { ruleRegistrationKey(c, "C05.5") })
			c.guard("C05.6", func() { ruleFreshPerCallState(c, "C05.6") })
			c.guard("C05.9", func() {
				// no call sees another call's header: every envelope is built around its own header object
				ruleShapeCatalogue(c, "C05.9")
			})
			c.guard("C05.8", func() {
				// what one call receives is not storage shared with the next: every transport hands up the envelope it
				// decoded into a fresh object, and hands down exactly the caller's envelope
				ruleTransportPassThrough(c, "C05.8")
			})
			c.guard("C05.7", func() {
				// what a call puts on the wire is an owned copy of its own message: no bytes shared between calls
				rulePayloadProvenance(c, "C05.7")
				ruleStreamPayloadProvenance(c, "C05.7")
				ruleWhoPublishesFailure(c, "C05.7")
			})
		},
	})
	register(&propSpec{
		id: "C06",
		explanation: "Structural necessary conditions of 'every emitted envelope sequence conforms to the wire protocol': the alphabet each side can emit is exactly the catalogue of 10 construction sites with the field combinations the README grammar allows (C06.1); ids and addressing have constant provenance per stream and direction, responses swap source/destination, servers emit only for received ids, return routes drop the last hop under len>1 (C06.2, C06.4); trailer emission is test-and-set under the stream lock, the client reset is built only under 'no trailer ∧ context done' (C06.3); only the writer goroutine writes to a server connection's transport (C06.5); the trailer is queued before the deferred unregistration (C06.6); unknown-stream envelopes are answered per the table reset/ignore/open (C06.7); the unary reply always has header+trailer and a body exactly when the handler produced one (C06.8). Acceptance of concrete histories by the protocol automaton is NOT decided.",
		ruleText:    "obligation = one construction site, field provenance, typestate guard, write site or dispatch branch; non-trivial = needed provenance, facts, dominance or locksets",
		assumptions: baseAssumptions,
		run: func(c *Ctx, thorough bool) {
			c.guard("C06.1", func() { ruleShapeCatalogue(c, "C06.1") })
			c.guard("C06.2", func() { ruleAddressing(c, "C06.2") })
			c.guard("C06.3", func() { ruleOnceOnly(c, "C06.3"); ruleHeaderTypestate(c, "C06.3") })
			c.guard("C06.5", func() { ruleSingleWriter(c, "C06.5") })
			c.guard("C06.6", func() { ruleTrailerBeforeUnregister(c, "C06.6") })
			c.guard("C06.7", func() { ruleUnknownStream(c, "C06.7") })
			c.guard("C06.8", func() { ruleUnaryReplyComplete(c, "C06.8") })
			c.guard("C06.9", func() { ruleHalfCloseAndFinalStatus(c, "C06.9") })
			c.guard("C06.10", func() {
				// "a client's single, final reset": nothing follows it because every write of a client stream is bound to
				// the stream context, and the teardown that sends the reset cancels that context
				ruleStreamBlockingHonoursCtx(c, "C06.10")
				rulePerRPCGoroutinesCanExit(c, "C06.10")
			})
		},
	})
}

func init() {
	register(&propSpec{
		id: "C07",
		explanation: "Structural necessary conditions of 'cancelling a streaming call cancels its handler and fails the caller's calls': the stream context's only roots are the caller's NewStream context (C07.1); every blocking step of the client stream selects on / is handed that context (C07.2); context errors on the Done branches are converted by toStatusError, which maps Canceled and DeadlineExceeded via status.FromContextError (C07.3); the reset is written on every exit of the read loop when due, with a bounded context that does not descend from the (already done) stream context (C07.4); a reset for a registered stream calls that entry's cancel, which is result 1 of the contextFromHeaders call whose result 0 is the handler's context (C07.5); the handler-side reader/writer closures and serverStream honour the handler context (C07.6). That the reset arrives and where the cancellation lands in a trace are NOT decided.",
		ruleText:    "obligation = one context store, blocking primitive, conversion, write or call site; non-trivial = needed context ancestry, facts or path search",
		assumptions: baseAssumptions,
		run: func(c *Ctx, thorough bool) {
			c.guard("C07.1", func() { ruleStreamCtxDescends(c, "C07.1") })
			c.guard("C07.2", func() { ruleStreamBlockingHonoursCtx(c, "C07.2") })
			c.guard("C07.3", func() {
				ruleCtxErrorToStatus(c, "C07.3")
				ruleTerminalErrorAssigned(c, "C07.3")
				ruleDoneArmYieldsCtxErr(c, "C07.3")
			})
			c.guard("C07.4", func() { ruleResetOnLiveContext(c, "C07.4") })
			c.guard("C07.5", func() { ruleResetCancelsHandler(c, "C07.5") })
			c.guard("C07.6", func() { ruleHandlerBlockingHonoursCtx(c, "C07.6") })
		},
	})
	register(&propSpec{
		id: "C08",
		explanation: "Structural necessary conditions of 'caller deadlines reach the handler; timeout header values mean what they say': the key, unit suffix and divisor the client emits agree with the key the server matches and the unit table it reads (C08.1); that table is exactly the gRPC table and unknown units are rejected (C08.2); the header is emitted only under ok of ctx.Deadline(), a deadline is set only when the key matched and the value parsed, otherwise a cancel-only context, and the handler context descends from it (C08.3); the emitted integer is the floor quotient or the constant 1 under ≤0 (C08.4); the duration product is dominated by a bound on the parsed value (C08.5); empty / unparsable / unit-less values are rejected and signs / over-long digit strings are excluded before ParseInt (C08.6). The numeric relation between caller and handler deadlines is NOT decided.",
		ruleText:    "obligation = one literal-table agreement, guard, or arithmetic site; non-trivial = needed table extraction, facts or provenance",
		assumptions: baseAssumptions,
		run: func(c *Ctx, thorough bool) {
			c.guard("C08.1", func() { ruleTimeoutTables(c, "C08.1", "C08.2") })
			c.guard("C08.3", func() { ruleDeadlineIffDeadline(c, "C08.3") })
			c.guard("C08.4", func() { ruleTimeoutArithmetic(c, "C08.4", "C08.5", "C08.6") })
			c.guard("C08.7", func() { ruleTimeoutWithinGrammar(c, "C08.7") })
		},
	})
}

func init() {
	register(&propSpec{
		id: "C09",
		explanation: "Structural necessary conditions of 'when the client's transport fails, every call fails promptly and none hangs': on failure the sticky error is stored and every registered channel closed and deleted in one critical section (C09.1); every insertion into the registry happens in a critical section that read the sticky error and has fact rErr==nil (C09.2); the read loop's exit is always published with a non-nil error (C09.3); every receive from a per-call queue tests for closure and the closed branch returns a provably non-nil error (C09.4); the stream read loop assigns a provably non-nil terminal error and releases the ready latch on every non-success exit (C09.5); the unary wait and the stream reader are escapable by the caller's context (C09.6). Promptness in time is NOT decided.",
		ruleText:    "obligation = one store/close/delete, insertion, return or receive; non-trivial = needed locksets, facts, provenance or a path search",
		assumptions: baseAssumptions,
		run: func(c *Ctx, thorough bool) {
			c.guard("C09.1", func() {
				ruleFailurePublication(c, "C09.1")
				ruleRegistryRemovalSites(c, "C09.1", "client.RpcMultiplexer.handlers", []string{"client.RpcMultiplexer.unregisterHandler", "client.RpcMultiplexer.closeError"})
				ruleWhoPublishesFailure(c, "C09.1")
			})
			c.guard("C09.2", func() { ruleCheckThenRegister(c, "C09.2"); ruleRegistrationRefusalHonoured(c, "C09.2") })
			c.guard("C09.3", func() { ruleReadLoopExitPublished(c, "C09.3") })
			c.guard("C09.4", func() { ruleClosedChannelMeansError(c, "C09.4") })
			c.guard("C09.5", func() {
				ruleTerminalErrorAssigned(c, "C09.5")
				ruleLatchRelease(c, "C09.5")
				ruleTerminalErrorIsStatus(c, "C09.5")
			})
			c.guard("C09.6", func() { ruleWaitingEscapable(c, "C09.6") })
		},
	})
	register(&propSpec{
		id: "C10",
		explanation: "Structural necessary conditions of 'server connections end cleanly': the read loop's Read is handed the connection context, which descends from the server context Stop cancels, is cancelled by the writer on a write error and by serve's deferred cancel (C10.1); serve returns on read error and every blocking step of its loop is escapable by the connection context (C10.2); Serve awaits every stream: cancel-then-await per registry entry, loop exit only when the registry is empty, signal+delete in one critical section (C10.3); every handler invocation's context descends from the connection context or has its cancel function in the swept registry (C10.4); every blocking primitive in the writer, the workers and the per-stream goroutine is escapable by such a context (C10.5). That user handlers observe their context is NOT decided.",
		ruleText:    "obligation = one context ancestry, blocking primitive, path or critical section; non-trivial = needed context ancestry, locksets, facts or a path search",
		assumptions: baseAssumptions,
		run: func(c *Ctx, thorough bool) {
			c.guard("C10.1", func() { ruleServeCancellable(c, "C10.1") })
			c.guard("C10.2", func() { ruleServeReturns(c, "C10.2") })
			c.guard("C10.3", func() {
				ruleStreamsCancelledAndAwaited(c, "C10.3")
				ruleRegistryRemovalSites(c, "C10.3", "goat.handler.streams", []string{"goat.handler.unregisterStream"})
			})
			c.guard("C10.4", func() { ruleHandlerCtxCancelledByConnEnd(c, "C10.4") })
			c.guard("C10.5", func() { ruleServerGoroutinesCanExit(c, "C10.5") })
		},
	})
}

func init() {
	register(&propSpec{
		id: "C12",
		explanation: "Structural necessary conditions of 'no envelope sequence from a peer can crash or stall a server': both dispatch sites are reached only under header-present ∧ method-parsed ∧ destination==server-name ∧ service-known ∧ method-known (C12.1); no panic site reachable from peer-driven code is controlled by peer-derived data (C12.2); every field access through an optional sub-message of a received envelope is nil-guarded, with nonnil(rpc.Header) carried across the serve→worker/stream boundary as a verified entry contract (C12.3); unknown-stream envelopes are answered per the table (C12.4); every rejection leads back to the read loop and serve returns only on read error / done context / failed write (C12.5); nothing blocks under the server registry lock (C12.6). The bounded-exhaustive sequence space is NOT decided.",
		ruleText:    "obligation = one dispatch guard, panic site, field access, branch or blocking primitive; non-trivial = needed facts, taint provenance, locksets",
		assumptions: baseAssumptions,
		run: func(c *Ctx, thorough bool) {
			c.guard("C12.1", func() { ruleHandlerGate(c, "C12.1") })
			c.guard("C12.2", func() {
				rulePanicReachability(c, "C12.2", c.p.reachFns("goat.handler.", "goat.Server.", "server.", "goat.contextFromHeaders", "goat.parse", "int."))
			})
			c.guard("C12.3", func() { ruleServerNilChecks(c, "C12.3") })
			c.guard("C12.4", func() { ruleUnknownStream(c, "C12.4") })
			c.guard("C12.5", func() { ruleServingContinues(c, "C12.5") })
			c.guard("C12.7", func() {
				// the per-stream inbound queue is never closed while the read loop may be sending on it
				f := func(d string) bool { return d == "ch" || d == "done" || d == "writeChan" || d == "unaryRpcChan" }
				ruleCloseSendExclusion(c, "C12.7", f)
				rulePipeline(c, "C12.7", func(q queueSpec) bool { return strings.HasPrefix(q.name, "srvstream.") || strings.HasPrefix(q.name, "conn.") }, false)
			})
			c.guard("C12.6", func() {
				ruleForwardEscapableByStream(c, "C12.6")
				ruleNoBlockUnderRegistryLock(c, "C12.6", func(k string) bool { return k == "goat.handler.mu" })
			})
		},
	})
	register(&propSpec{
		id: "C13",
		explanation: "Structural necessary conditions of 'no envelope sequence from a peer can crash a client or leave a call hanging': value-or-error postcondition of the unary call (C13.1); optional sub-messages of received envelopes are nil-guarded on the client side (C13.2); no client panic site is controlled by peer data (C13.3); every exit of the stream read loop releases the ready latch (C13.4) and assigns a provably non-nil terminal error unless it is the OK-trailer exit (C13.5); unknown ids are dropped without any channel operation (C13.6); no send on / double close of a closed per-call queue: closes look the element up and delete it in one critical section, sends look it up in the same critical section (C13.7); nothing blocks under the client registry lock (C13.8). 'Every call has terminated once the connection is closed' is a liveness claim and is NOT decided.",
		ruleText:    "obligation = one return, field access, panic site, exit path, channel operation; non-trivial = needed facts, provenance, path search, locksets",
		assumptions: baseAssumptions,
		run: func(c *Ctx, thorough bool) {
			c.guard("C13.1", func() { ruleValueOrError(c, "C13.1"); ruleCodecErrorsHonoured(c, "C13.1") })
			c.guard("C13.2", func() {
				n := ruleOptionalSubMsgNilChecked(c, "C13.2", c.p.reachFns("client.", "goat.ClientConn.", "goat.headersFromContext"), nil)
				c.floor("C13.2", "field accesses through optional sub-messages (client side)", n, 2)
			})
			c.guard("C13.3", func() { rulePanicReachability(c, "C13.3", c.p.reachFns("client.", "goat.ClientConn.", "goat.headersFromContext")) })
			c.guard("C13.4", func() { ruleLatchRelease(c, "C13.4") })
			c.guard("C13.5", func() { ruleTerminalErrorAssigned(c, "C13.5") })
			c.guard("C13.6", func() { ruleUnknownIdsDropped(c, "C13.6") })
			c.guard("C13.7", func() {
				f := func(d string) bool { return d == "handlers[]" || d == "rCh" }
				ruleCloseSendExclusion(c, "C13.7", f)
				ruleNoDoubleClose(c, "C13.7", f)
			})
			c.guard("C13.8", func() {
				ruleNoBlockUnderRegistryLock(c, "C13.8", func(k string) bool { return k == muxLock })
			})
			c.guard("C13.9", func() {
				// "once the connection is closed every call has terminated": the failure is always published and
				// every waiter observes it (rules shared with C09)
				ruleFailurePublication(c, "C13.9")
				ruleReadLoopExitPublished(c, "C13.9")
				ruleClosedChannelMeansError(c, "C13.9")
				ruleTerminalErrorIsStatus(c, "C13.9")
			})
		},
	})
}

func init() {
	register(&propSpec{
		id: "C14",
		explanation: "Structural necessary conditions of 'finishing an RPC releases everything held for it' — leaks are pairing failures on some path and every path is in the CFG: client registrations are followed on every path by their (deferred / transferred) unregistration, including the failed-open path of newStream (C14.1); every server registration is followed by the stream goroutine whose first defer unregisters the same id (C14.2); every cancel function created in scope is called, deferred, stored or handed to an owner on every path, across function boundaries (C14.3); per-RPC goroutines contain only blocking primitives escapable by the RPC's own context (C14.4); per-RPC queues are stored nowhere but the registry entry and the RPC's object (C14.5). Counts over 10^4–10^6 RPC histories are NOT decided.",
		ruleText:    "obligation = one acquire/release pairing, cancel function, blocking primitive or store; non-trivial = needed a path search, ownership transfer, provenance",
		assumptions: baseAssumptions,
		run: func(c *Ctx, thorough bool) {
			c.guard("C14.1", func() { ruleClientRegistrationPairing(c, "C14.1"); ruleRegistrationRefusalHonoured(c, "C14.1") })
			c.guard("C14.2", func() {
				ruleServerRegistrationPairing(c, "C14.2")
				ruleRegistryRemovalSites(c, "C14.2", "goat.handler.streams", []string{"goat.handler.unregisterStream"})
			})
			c.guard("C14.3", func() { ruleCancelNotDropped(c, "C14.3") })
			c.guard("C14.4", func() { rulePerRPCGoroutinesCanExit(c, "C14.4") })
			c.guard("C14.5", func() { ruleQueuesDieWithRegistration(c, "C14.5") })
			c.guard("C14.8", func() {
				// a late message for a stream that has ended must not register the stream again (nobody will end it)
				ruleUnknownStream(c, "C14.8")
			})
			c.guard("C14.7", func() {
				// an RPC ends for the peer only if the terminal envelopes have the shape the peer treats as terminal
				ruleShapeCatalogue(c, "C14.7")
			})
			c.guard("C14.6", func() {
				// the "deadline" outcome releases the server side only if the deadline reaches the handler
				ruleTimeoutTables(c, "C14.6", "C14.6")
				ruleDeadlineIffDeadline(c, "C14.6")
			})
		},
	})
	register(&propSpec{
		id: "C15",
		explanation: "Static Eraser over the fields of the goat-owned struct types: every non-init access to a field in the guard table (discovered `protected{sync.Mutex;…}` / `conns{sync.Mutex;…}` groups plus seven named pairs) has its guard in the interprocedural must-lockset (C15.1); the id counter is touched only through sync/atomic (C15.2); every other field written after construction is configuration-phase, ordered by a go statement, or latch-ordered, and a new such field is reported (C15.3); received envelopes are written only at the proxy's two routing fields and constructed envelopes are not written after hand-off (C15.4). Absence of a report is not absence of a race: races in user handlers, transports, or on accesses the table does not name are NOT decided.",
		ruleText:    "obligation = one field access or store; non-trivial = needed a lockset, dominance or provenance",
		assumptions: baseAssumptions,
		run: func(c *Ctx, thorough bool) {
			c.guard("C15.1", func() { ruleGuardedFields(c, "C15.1", nil) })
			c.guard("C15.3", func() { ruleSingleOwnerFields(c, "C15.3") })
			c.guard("C15.4", func() { ruleReceivedEnvelopeStores(c, "C15.4") })
			c.guard("C15.6", func() { ruleConsistentLocking(c, "C15.6") })
			c.guard("C15.7", func() {
				// close(ch) and ch <- v are conflicting accesses to the channel: they must be ordered by a common lock or
				// by ownership, for every channel class
				ruleCloseSendExclusion(c, "C15.7", nil)
				ruleNoDoubleClose(c, "C15.7", nil)
			})
			c.guard("C15.5", func() {
				// envelopes do not share mutable parts: every envelope has its own header literal, and payloads are owned
				// copies, not aliases of recycled codec buffers
				ruleShapeCatalogue(c, "C15.5")
				rulePayloadProvenance(c, "C15.5")
				ruleStreamPayloadProvenance(c, "C15.5")
			})
		},
	})
	register(&propSpec{
		id: "C16",
		explanation: "Structural necessary conditions of 'a proxy delivers each accepted envelope once, in order, to the right peer': the value enqueued is the very envelope a peer read loop read, once per command and at most once per path (C16.1); the lookup key is the header destination read after the rewriting interceptor, or the last return-route hop, and the send goes to the entry looked up or created for that key in one critical section (C16.2); the only stores into received envelopes are one append of the proxy's own name to the route record and the return-route pop (C16.3); the server's return route drops the last hop, consistently (C16.4); one forwarding loop, one read and one write loop per peer, frozen queue roles (C16.5); no accepted envelope is discarded by a non-blocking enqueue (C16.6). Completion of RPC workloads through the proxy is NOT decided.",
		ruleText:    "obligation = one send, lookup key alternative, store, queue role set or select; non-trivial = needed provenance, facts, dominance, locksets",
		assumptions: baseAssumptions,
		run: func(c *Ctx, thorough bool) {
			c.guard("C16.1", func() { ruleProxyForwardsSameEnvelopeOnce(c, "C16.1") })
			c.guard("C16.2", func() { ruleProxyRightPeer(c, "C16.2") })
			c.guard("C16.3", func() { ruleReceivedEnvelopeStores(c, "C16.3") })
			c.guard("C16.4", func() { ruleReturnRoute(c, "C16.4", nil) })
			c.guard("C16.5", func() { ruleProxyOrder(c, "C16.5"); ruleFreshPeerQueue(c, "C16.5") })
			c.guard("C16.6", func() { ruleProxyNoDiscard(c, "C16.6") })
			c.guard("C16.7", func() {
				// the peer table keeps pointing at the live connection of a name
				ruleRemovalIdentityChecked(c, "C16.7")
				ruleFailureReported(c, "C16.7")
			})
		},
	})
}

func init() {
	register(&propSpec{
		id: "C17",
		explanation: "Structural necessary conditions of 'a proxy rejects spoofed sources, isolates bad peers and shuts down cleanly': the enqueue, the interceptor call and every header rewrite are reached only under header-present ∧ source==attached-name, and no proxy panic site is controlled by peer data (C17.1); nothing reachable from the single forwarding loop blocks except its own escapable command wait, and dialling runs on its own goroutine (C17.2); removal from the peer table is under a fact comparing the current entry with the failing connection (C17.3); every blocking primitive of the peer loops is escapable by the proxy context (C17.4); each failing Read/Write/dial reports exactly its error once and the callback runs outside the lock (C17.5); the forwarding loop returns when its context is done (C17.6). 'Never delays' as latency is NOT decided.",
		ruleText:    "obligation = one gated site, panic site, blocking primitive, removal or report; non-trivial = needed facts, taint provenance, may-block summaries, context ancestry",
		assumptions: baseAssumptions,
		run: func(c *Ctx, thorough bool) {
			c.guard("C17.1", func() {
				ruleProxySourceGate(c, "C17.1")
				// no proxy function touches a field of the (optional) header without a nil guard, helpers included
				n := ruleOptionalSubMsgNilChecked(c, "C17.1", c.p.reachFns("goat.Proxy.", "goat.proxyClient.", "goat.NewProxy"), nil)
				c.floor("C17.1", "field accesses through optional sub-messages (proxy)", n, 4)
			})
			c.guard("C17.2", func() { ruleForwardingLoopNeverWaits(c, "C17.2") })
			c.guard("C17.3", func() { ruleRemovalIdentityChecked(c, "C17.3"); ruleFreshPeerQueue(c, "C17.3") })
			c.guard("C17.4", func() { rulePeerLoopsCanExit(c, "C17.4") })
			c.guard("C17.5", func() { ruleFailureReported(c, "C17.5") })
			c.guard("C17.6", func() { ruleContextEndsLoop(c, "C17.6") })
		},
	})
	register(&propSpec{
		id: "C18",
		explanation: "Structural necessary conditions of 'a demultiplexer gives each key its own ordered connection and shares the writer': the connection receiving an envelope is the registry entry under demuxOn(envelope) or the one created for that key, and the value handed over is the envelope read (C18.1); creation happens only when the key is absent, in the critical section of the lookup, with one registry store, one writer goroutine and one announcement over the record's own channels (C18.2); frozen single sender/receiver sets for r and w, and the writer writes the received value unchanged to the shared transport (C18.3); no send can race a close of r/w (C18.4); the run loop and the writer are escapable by the context Stop cancels (C18.5); the channel transport's read tests for closure and fails (C18.6). Behaviour under concrete interleavings is NOT decided.",
		ruleText:    "obligation = one lookup/creation site, queue role set, close/send pair, blocking primitive; non-trivial = needed provenance, facts, locksets",
		assumptions: baseAssumptions,
		run: func(c *Ctx, thorough bool) {
			c.guard("C18.1", func() { ruleDemuxRouting(c, "C18.1", "C18.2") })
			c.guard("C18.3", func() { ruleDemuxWriter(c, "C18.3") })
			c.guard("C18.4", func() {
				f := func(d string) bool { return d == "r" || d == "w" }
				ruleCloseSendExclusion(c, "C18.4", f)
				ruleNoDoubleClose(c, "C18.4", f)
			})
			c.guard("C18.5", func() { ruleDemuxRunEscapable(c, "C18.5") })
			c.guard("C18.6", func() {
				ruleChannelReadFailsAfterClose(c, "C18.6", c.p.MustFn("goat.demuxConn.Read"), "demuxConn.Read")
				ruleWriteFailsAfterCancel(c, "C18.6", c.p.MustFn("goat.demuxConn.Write"), "demuxConn.Write")
				r, _ := c.p.rwClosures(c.p.MustFn("goat.NewGoatOverChannel"))
				ruleChannelReadFailsAfterClose(c, "C18.6", r, "chan.read")
			})
		},
	})
	register(&propSpec{
		id: "C19",
		explanation: "Structural necessary conditions of 'shipped transports carry every envelope unchanged and reject what is not one': every blocking primitive in every RpcReadWriter implementation in scope selects on / is handed the method's own context (C19.1); the WebSocket read returns an envelope only under binary ∧ decoded, the HTTP handler delivers only under body/read/decode/header/source/mapping checks and every rejecting exit answers 400 (C19.2); what is written is proto.Marshal of the envelope given and what is returned/delivered is what was decoded (C19.3); the idle cleaner's close of the delivery channel cannot race a delivery send, and the delivery send is escapable (C19.4); readers of a closed connection fail (C19.5). Equality of envelopes across proto.Marshal/Unmarshal is NOT decided.",
		ruleText:    "obligation = one blocking primitive, guarded return/delivery, write site, close/send pair; non-trivial = needed facts, provenance, locksets",
		assumptions: baseAssumptions,
		run: func(c *Ctx, thorough bool) {
			c.guard("C19.1", func() { ruleTransportCtxDiscipline(c, "C19.1") })
			c.guard("C19.2", func() { ruleTransportRejection(c, "C19.2"); ruleWebsocketRejectsOnlyNonEnvelopes(c, "C19.2") })
			c.guard("C19.3", func() { ruleTransportPassThrough(c, "C19.3") })
			c.guard("C19.4", func() {
				ruleHttpIdleCleanup(c, "C19.4")
				// the closure signal of an HTTP connection is closed at most once
				ruleNoDoubleClose(c, "C19.4", func(d string) bool { return d == "done" })
			})
			c.guard("C19.5", func() {
				ruleChannelReadFailsAfterClose(c, "C19.5", c.p.MustFn("goat.httpReadWriter.Read"), "httpReadWriter.Read")
				r, _ := c.p.rwClosures(c.p.MustFn("goat.NewGoatOverChannel"))
				ruleChannelReadFailsAfterClose(c, "C19.5", r, "chan.read")
			})
		},
	})
	register(&propSpec{
		id: "C20",
		explanation: "Structural necessary conditions of 'interceptors and stats handlers see every RPC exactly once, in order': after each Begin the End emission is deferred before any exit; newStream emits End on its error path xor transfers to the stream read loop whose deferred block emits it on every exit (C20.1); Begin dominates every other event of the RPC and every event's context descends from the TagRPC result (C20.2); the error given to End is the variable holding the RPC's outcome, io.EOF excluded, and every exit of the stream read loop assigns it (C20.3); per API call exactly one of {interceptor(…, direct implementation), direct implementation}, guarded by the interceptor being configured (C20.4); the chain builders recurse with the same curr+1 they index with, stop at len-1, start at 0, and are isomorphic (C20.5); one ConnBegin before the read loop and one deferred ConnEnd per served connection (C20.6). Event order at run time across goroutines is NOT decided.",
		ruleText:    "obligation = one pairing, dominance, provenance or recurrence check; non-trivial = needed a path search, dominance, provenance",
		assumptions: baseAssumptions,
		run: func(c *Ctx, thorough bool) {
			c.guard("C20.1", func() { ruleBeginEndPairing(c, "C20.1"); ruleErrorPathEndSeesTheError(c, "C20.1") })
			c.guard("C20.2", func() { ruleBeginFirstSameTag(c, "C20.2") })
			c.guard("C20.3", func() { ruleEndErrorIsOutcome(c, "C20.3") })
			c.guard("C20.4", func() { ruleInterceptorExactlyOnce(c, "C20.4") })
			c.guard("C20.5", func() { ruleChainRecurrence(c, "C20.5") })
			c.guard("C20.6", func() { ruleConnEvents(c, "C20.6") })
		},
	})
}

// C11.3: per-stream state locks held across a blocking primitive are recorded as observations (no connection-wide
// party takes those locks), not as violations.
func ruleStreamLockObservation(c *Ctx, rule string) {
	p := c.p
	le := p.Locks()
	n := 0
	for _, f := range p.Funcs {
		for _, op := range p.Blocks().ops[f] {
			for k := range le.May(op.Instr) {
				if _, reg := registryLocks[k]; !reg {
					n++
					c.observations = append(c.observations, "per-object lock "+k+" may be held across "+p.opDesc(op)+" in "+p.cname(f)+" ("+p.ipos(op.Instr)+")")
				}
			}
		}
	}
	c.trivial(rule, "stream-state-locks", true, itoa(n)+" blocking primitives execute under a per-object (non-registry) lock; recorded as observations")
}

// C05.6: per-call state objects are freshly allocated by their constructors (not recycled from a pool or a
// shared variable): state left behind by one call cannot surface in another.
func ruleFreshPerCallState(c *Ctx, rule string) {
	p := c.p
	for _, fk := range []string{"server.NewServerStream", "server.NewUnaryServerTransportStream", "server.NewServerTransportStream", "client.NewStream"} {
		f := p.MustFn(fk)
		n := 0
		for _, r := range returnsOf(f) {
			v := retVals(r)[0]
			if isNilConst(v) {
				continue
			}
			n++
			ok := true
			why := ""
			for _, t := range p.Origins().Of(v) {
				if t.Op != "alloc" || !strings.Contains(t.Name, "@"+fk+"#") {
					ok = false
					why = "constructor may return " + t.String()
				}
			}
			c.check(rule, fk+":fresh-object", ok, "the per-call object returned is allocated in this constructor call "+why, p.ipos(r))
		}
		c.floor(rule, "object-returning exits of "+fk, n, 1)
	}
}
