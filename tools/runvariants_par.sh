#!/bin/bash
# usage: runvariants_par.sh <variant…> — all 20 quick checks against each variant (scratch copies), 8 variants at a
# time; prints only the reports, prefixed by the variant
cd /verif
printf '%s\n' "$@" | xargs -P 8 -I{} bash -c 's=$(mktemp -d /tmp/goatb.XXXX); rsync -a --exclude .git /repo/ $s/; patch -p1 -s -d $s -i /verif/seeded/{}/patch.diff || echo "PATCH FAILED {}"; mkdir -p $s/.verif; cp /verif/known_findings.json $s/.verif/; for i in ${PROPS:-01 02 03 04 05 06 07 08 09 10 11 12 13 14 15 16 17 18 19 20}; do GOAT_REPO=$s VERIF_DIR=$s/.verif /verif/bin/goatcheck C$i quick 2>&1 | grep -E "^(VIOLATION C|UNDECIDED|BROKEN)" | cut -c1-220 | sed "s/^/{}: /"; done; rm -rf $s'
