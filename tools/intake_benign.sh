#!/bin/bash
# usage: intake_benign.sh <letter> <N> — files a sub-agent's behaviour-preserving refactoring as a benign variant and
# runs all 20 checks against it (each must stay silent).
set -u
export GOFLAGS=-mod=mod GOPROXY=off GOSUMDB=off GOTOOLCHAIN=local
unset GOWORK
L=$1; N=$2
wt=/tmp/wtb_$L; diff=$wt/_out/refactor$N.diff
[ -f $diff ] || { echo "no $diff"; exit 2; }
s=$(mktemp -d /tmp/goatbi.XXXXXX)
rsync -a --exclude .git /repo/ $s/
(cd $s && git init -q . >/dev/null 2>&1; git apply $diff) || { echo "patch does not apply"; rm -rf $s; exit 3; }
rm -rf $s/.git
(cd $s && go build ./... ) || { echo "DOES NOT BUILD"; rm -rf $s; exit 4; }
ok=0; for t in 1 2; do if (cd $s && go test -vet=off -count=1 -timeout 180s ./... >/dev/null 2>&1); then ok=1; break; fi; done
echo "== benign $L$N: suite_ok=$ok"
mkdir -p $s/.verif; cp /verif/known_findings.json $s/.verif/
alarms=""
for i in 01 02 03 04 05 06 07 08 09 10 11 12 13 14 15 16 17 18 19 20; do
  o=$(GOAT_REPO=$s VERIF_DIR=$s/.verif /verif/bin/goatcheck C$i quick 2>&1)
  if echo "$o" | grep -qE "^(VIOLATION property|BROKEN)"; then
    alarms="$alarms C$i"
    echo "$o" | grep -E "^(VIOLATION C|UNDECIDED|BROKEN)" | cut -c1-230 | sed 's/^/      /'
  fi
done
rm -rf $s
echo "   alarms:${alarms:- none}"
d=/verif/seeded/benign-agent-$L$N
mkdir -p $d; cp $diff $d/patch.diff; [ -f $wt/_out/refactor$N.md ] && cp $wt/_out/refactor$N.md $d/notes.md
python3 - "$L$N" "$ok" "$alarms" <<'PY'
import json,sys,os
n,ok,al=sys.argv[1],sys.argv[2],sys.argv[3].strip()
d=f"/verif/seeded/benign-agent-{n}"
notes=open(d+"/notes.md").read().strip().split("\n")[0][:200] if os.path.exists(d+"/notes.md") else ""
json.dump({"id":f"benign-agent-{n}","kind":"benign","property":"ALL","expect":[],"also_properties":[],
 "breaks":"nothing: "+notes,"needs_to_manifest":"n/a",
 "origin":"independent sub-agent asked for behaviour-preserving refactorings (saw nothing from /verif)",
 "ran":"go build ok; pinned suite "+("passes" if ok=="1" else "FAILS")+"; all 20 quick checks run against it",
 "alarms_at_intake":al or "none"},open(d+"/meta.json","w"),indent=1)
PY
