package main

// E8 `pipeline` — queues (channel classes by make site), their senders / receivers / closers, and the
// goroutines that serve them. The frozen table below was confirmed by reading the pinned tree; every run
// re-derives the actual sets and compares.

import (
	"go/types"
	"fmt"
	"sort"
	"strings"

	"golang.org/x/tools/go/ssa"
)

type queueSpec struct {
	name   string // role name
	makeIn string // function key containing the make site
	elem   string // element type key
	ord    int    // ordinal among make sites of that element type in the function
	recv   []string
	send   []string
	close  []string
	single bool // exactly one consumer goroutine/caller instance per queue instance is required (FIFO)
	why    string
}

// role names → function keys, resolved at run time
func (p *Prog) roleFn(role string) string {
	switch role {
	case "server.readloop":
		return p.fnKey(p.serverReadLoopFn())
	case "serve.writer":
		return p.fnKey(p.serveWriter())
	case "serve.worker":
		return p.fnKey(p.serveWorker())
	case "runStream.reader":
		r, _ := p.rwClosures(p.MustFn("goat.handler.runStream"))
		return p.fnKey(r)
	case "runStream.writer":
		_, w := p.rwClosures(p.MustFn("goat.handler.runStream"))
		return p.fnKey(w)
	case "mux.streamReader":
		r, _ := p.rwClosures(p.MustFn("client.RpcMultiplexer.NewStreamReadWriter"))
		return p.fnKey(r)
	case "chan.read":
		r, _ := p.rwClosures(p.MustFn("goat.NewGoatOverChannel"))
		return p.fnKey(r)
	case "chan.write":
		_, w := p.rwClosures(p.MustFn("goat.NewGoatOverChannel"))
		return p.fnKey(w)
	case "demux.connWriter":
		return p.fnKey(p.goClosure(p.MustFn("goat.Demux.newConnLocked"), "per-connection writer goroutine", func(f *ssa.Function) bool { return len(p.transportOps(f, "Write", false)) > 0 }))
	case "stream.deferred":
		f := p.MustFn("client.clientStream.readLoop")
		for _, a := range f.AnonFuncs {
			if isDeferredClosureOf(a, f) {
				return p.fnKey(a)
			}
		}
		panic(UnresolvedError{"deferred block of clientStream.readLoop"})
	}
	if p.Fn(role) == nil {
		panic(UnresolvedError{"function " + role})
	}
	return role
}

var queueTable = []queueSpec{
	{"unary.respChan", "client.RpcMultiplexer.CallUnaryMethod", "chan *pb.Rpc", 0,
		[]string{"client.RpcMultiplexer.CallUnaryMethod"}, []string{"client.RpcMultiplexer.handleResponse"},
		[]string{"client.RpcMultiplexer.unregisterHandler", "client.RpcMultiplexer.closeError"}, true, "per-call reply queue"},
	{"stream.respChan", "client.RpcMultiplexer.NewStreamReadWriter", "chan *pb.Rpc", 0,
		[]string{"mux.streamReader"}, []string{"client.RpcMultiplexer.handleResponse"},
		[]string{"client.RpcMultiplexer.unregisterHandler", "client.RpcMultiplexer.closeError"}, true, "per-stream inbound queue"},
	{"stream.rCh", "client.NewStream", "chan *pb.Body", 0,
		[]string{"client.clientStream.RecvMsg"}, []string{"client.clientStream.readLoop"}, []string{"stream.deferred"}, true, "bodies from the stream read loop to RecvMsg"},
	{"conn.writeChan", "goat.newHandler", "chan *pb.Rpc", 0,
		[]string{"serve.writer"}, []string{"serve.worker", "runStream.writer", "goat.handler.resetStream"}, nil, true, "single writer queue of a server connection"},
	{"conn.unaryRpcChan", "goat.newHandler", "chan goat.unaryRpcArgs", 0,
		[]string{"serve.worker"}, []string{"server.readloop"}, nil, false, "unary requests to the worker pool (N consumers: only unary envelopes may enter)"},
	{"srvstream.ch", "goat.handler.processStreamingRpc", "chan *pb.Rpc", 0,
		[]string{"runStream.reader"}, []string{"goat.handler.processStreamingRpc"}, nil, true, "inbound envelopes of one server stream"},
	{"srvstream.done", "goat.handler.processStreamingRpc", "chan struct{}", 0,
		[]string{"goat.handler.cancelAndWaitForStreams"}, []string{"goat.handler.unregisterStream"}, nil, true, "completion signal"},
	{"proxy.commands", "goat.NewProxy", "chan goat.command", 0,
		[]string{"goat.Proxy.serveClients"}, []string{"goat.proxyClient.readLoop", "goat.proxyClient.reportError"}, nil, true, "single forwarding loop"},
	{"proxy.fromServer.attached", "goat.Proxy.AddClient", "chan *pb.Rpc", 0,
		[]string{"goat.proxyClient.writeLoop"}, []string{"goat.Proxy.forwardRpc"}, nil, true, "per-destination buffer"},
	{"proxy.fromServer.dialled", "goat.Proxy.addOutgoingConnectionLocked", "chan *pb.Rpc", 0,
		[]string{"goat.proxyClient.writeLoop"}, []string{"goat.Proxy.forwardRpc"}, nil, true, "per-destination buffer"},
	{"demux.r", "goat.Demux.newConnLocked", "chan *pb.Rpc", 0,
		[]string{"goat.demuxConn.Read"}, []string{"goat.Demux.Run"}, nil, true, "shared transport → logical connection (never closed: cancellation is signalled on demux.done)"},
	{"demux.w", "goat.Demux.newConnLocked", "chan *pb.Rpc", 1,
		[]string{"demux.connWriter"}, []string{"goat.demuxConn.Write"}, nil, true, "logical connection → shared transport (never closed)"},
	{"demux.done", "goat.Demux.newConnLocked", "chan struct{}", 0,
		[]string{"goat.Demux.Run", "demux.connWriter", "goat.demuxConn.Read", "goat.demuxConn.Write"}, nil, []string{"goat.Demux.Cancel"}, false, "cancellation signal of a logical connection"},
	{"http.readCh", "goat.GoatOverHttp.retrieve", "chan *pb.Rpc", 0,
		[]string{"goat.httpReadWriter.Read"}, []string{"goat.GoatOverHttp.ServeHTTP"}, nil, true, "HTTP deliveries (never closed: closure is signalled on http.done)"},
	{"http.done", "goat.GoatOverHttp.retrieve", "chan struct{}", 0,
		[]string{"goat.httpReadWriter.Read", "goat.GoatOverHttp.ServeHTTP"}, nil, []string{"goat.GoatOverHttp.unregisterLocked"}, false, "closure signal of an HTTP connection"},
}

type queueActual struct {
	mk                *ssa.MakeChan
	term              string
	recv, send, close map[string][]ssa.Instruction
}

func (p *Prog) makeChans() []*ssa.MakeChan {
	var out []*ssa.MakeChan
	for _, f := range p.Funcs {
		allInstrs(f, func(i ssa.Instruction) {
			if m, ok := i.(*ssa.MakeChan); ok {
				out = append(out, m)
			}
		})
	}
	return out
}

func (p *Prog) queueActuals() map[string]*queueActual {
	e := p.Origins()
	out := map[string]*queueActual{}
	for _, m := range p.makeChans() {
		ts := e.Of(m)
		for k := range ts {
			out[k] = &queueActual{mk: m, term: k, recv: map[string][]ssa.Instruction{}, send: map[string][]ssa.Instruction{}, close: map[string][]ssa.Instruction{}}
		}
	}
	for _, u := range p.chanUses() {
		cls := p.chanClass(u.ch)
		for k := range cls {
			qa := out[k]
			if qa == nil {
				continue
			}
			fk := p.fnKey(u.instr.Parent())
			switch u.kind {
			case "recv":
				qa.recv[fk] = append(qa.recv[fk], u.instr)
			case "send":
				qa.send[fk] = append(qa.send[fk], u.instr)
			case "close":
				qa.close[fk] = append(qa.close[fk], u.instr)
			}
		}
	}
	return out
}

func keysOf(m map[string][]ssa.Instruction) []string {
	var o []string
	for k := range m {
		o = append(o, k)
	}
	sort.Strings(o)
	return o
}

// rulePipeline checks the queues selected by `want` against the frozen table, and that no unknown queue exists.
func rulePipeline(c *Ctx, rule string, want func(q queueSpec) bool, strictNew bool) {
	p := c.p
	acts := p.queueActuals()
	matched := map[string]bool{}
	n := 0
	for _, q := range queueTable {
		term := fmt.Sprintf("makechan(%s@%s#%d)", q.elem, q.makeIn, q.ord)
		qa := acts[term]
		if qa != nil {
			matched[term] = true
		}
		if !want(q) {
			continue
		}
		n++
		if qa == nil {
			c.undecided(rule, "queue:"+q.name, "UNDECIDED: make site "+term+" not found (queue table stale: a queue was removed or re-typed)")
			continue
		}
		resolve := func(roles []string) []string {
			var o []string
			for _, r := range roles {
				o = append(o, p.roleFn(r))
			}
			sort.Strings(o)
			return o
		}
		cmp := func(kind string, got []string, wantL []string) {
			ok := strings.Join(got, ",") == strings.Join(wantL, ",")
			var pos []string
			var m map[string][]ssa.Instruction
			switch kind {
			case "receivers":
				m = qa.recv
			case "senders":
				m = qa.send
			default:
				m = qa.close
			}
			for _, k := range got {
				for _, i := range m[k] {
					pos = append(pos, p.ipos(i))
				}
			}
			c.check(rule, "queue:"+q.name+":"+kind, ok, fmt.Sprintf("%s of %s (%s): %v; frozen table: %v", kind, q.name, q.why, got, wantL), pos...)
		}
		cmp("receivers", keysOf(qa.recv), resolve(q.recv))
		cmp("senders", keysOf(qa.send), resolve(q.send))
		cmp("closers", keysOf(qa.close), resolve(q.close))
		if q.single {
			// the single consumer, when it is a goroutine body, is started by exactly one `go` site outside any loop
			for _, r := range q.recv {
				fk := p.roleFn(r)
				f := p.fnByKey(fk)
				if f == nil {
					continue
				}
				var sites []GoSite
				for _, gs := range p.GoSites() {
					for _, t := range gs.Targets {
						if t == f {
							sites = append(sites, gs)
						}
					}
				}
				if len(sites) == 0 {
					continue // consumer is an API method / synchronous callee
				}
				ok := len(sites) == 1 && !sites[0].InLoop
				c.check(rule, "queue:"+q.name+":single-consumer", ok,
					fmt.Sprintf("consumer %s is started by %d go site(s), in loop: %v — a second consumer instance reorders the queue", fk, len(sites), len(sites) > 0 && sites[0].InLoop), p.ipos(sites[0].Instr))
			}
		}
	}
	if strictNew {
		var unknown []string
		for k := range acts {
			if !matched[k] {
				unknown = append(unknown, k)
			}
		}
		sort.Strings(unknown)
		for _, k := range unknown {
			// only a queue that can carry envelopes (or structs / pointers holding them) can reorder, duplicate or lose
			// them; a new signalling channel is left to the generic rules (close/send exclusion, blocking under locks)
			if !carriesEnvelope(acts[k].mk.Type().Underlying().(*types.Chan).Elem(), 0) {
				c.trivial(rule, "new-queue:"+k, true, "new channel whose element type holds no envelope: not a stage of the envelope pipeline", p.ipos(acts[k].mk))
				continue
			}
			c.check(rule, "NEW-CONSTRUCT:queue:"+k, false, "channel make site not in the frozen queue table: an unknown queue of envelopes cannot be assumed order-preserving or escapable", p.ipos(acts[k].mk))
		}
	}
	c.inv("queues_checked", n)
	c.inv("make_chan_sites", len(acts))
}

// rulePerEnvelopeGoroutines: no `go` statement is handed an envelope (or a struct carrying one), except the
// frozen stream-open site: a per-message goroutine destroys per-stream order.
func rulePerEnvelopeGoroutines(c *Ctx, rule string) {
	p := c.p
	n := 0
	for _, gs := range p.GoSites() {
		n++
		carries := false
		vals := append([]ssa.Value{}, gs.Instr.Call.Args...)
		if mc, ok := gs.Instr.Call.Value.(*ssa.MakeClosure); ok {
			vals = append(vals, mc.Bindings...)
		}
		for _, v := range vals {
			tk := typeKey(v.Type())
			if tk == "pb.Rpc" || tk == "goat.command" || tk == "goat.unaryRpcArgs" || tk == "pb.Body" {
				carries = true
			}
			// captured cell holding an envelope
			if al, ok := v.(*ssa.Alloc); ok {
				ek := typeKey(deref(al.Type()))
				if ek == "pb.Rpc" || ek == "goat.command" || ek == "goat.unaryRpcArgs" {
					carries = true
				}
			}
		}
		var tnames []string
		for _, t := range gs.Targets {
			tnames = append(tnames, p.fnKey(t))
		}
		if len(tnames) == 0 {
			tnames = []string{"callback:" + p.callbackField(gs.Instr.Call.Value)}
		}
		construct := "go:" + p.fnKey(gs.In) + "→" + strings.Join(tnames, ",")
		if !carries {
			c.trivial(rule, construct, true, "goroutine is not handed an envelope", p.ipos(gs.Instr))
			continue
		}
		ok := p.fnKey(gs.In) == "goat.handler.processStreamingRpc" && len(gs.Targets) == 1 && p.fnKey(gs.Targets[0]) == "goat.handler.runStream"
		c.check(rule, construct, ok, "goroutine started with an envelope: allowed only for the stream-open envelope (one goroutine per stream); a goroutine per message reorders a stream", p.ipos(gs.Instr))
	}
	c.floor(rule, "go statements", n, 12)
}

// carriesEnvelope: values of type t hold (directly or through pointers, structs, slices, arrays, maps, channels) a
// generated protobuf message, or are interfaces / functions (which may).
func carriesEnvelope(t types.Type, depth int) bool {
	if depth > 4 {
		return true
	}
	if isProtoMsg(t) {
		return true
	}
	switch x := t.Underlying().(type) {
	case *types.Pointer:
		return carriesEnvelope(x.Elem(), depth+1)
	case *types.Slice:
		return carriesEnvelope(x.Elem(), depth+1)
	case *types.Array:
		return carriesEnvelope(x.Elem(), depth+1)
	case *types.Chan:
		return carriesEnvelope(x.Elem(), depth+1)
	case *types.Map:
		return carriesEnvelope(x.Elem(), depth+1) || carriesEnvelope(x.Key(), depth+1)
	case *types.Struct:
		for i := 0; i < x.NumFields(); i++ {
			if carriesEnvelope(x.Field(i).Type(), depth+1) {
				return true
			}
		}
		return false
	case *types.Interface:
		return !types.Identical(t, types.Universe.Lookup("error").Type())
	case *types.Signature:
		return true
	}
	return false
}
