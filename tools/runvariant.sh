#!/bin/bash
# runs all 20 quick checks against each named variant (scratch copy) and prints any report
cd /verif
for v in "$@"; do s=$(mktemp -d /tmp/goatb.XXXX); rsync -a --exclude .git /repo/ $s/; patch -p1 -s -d $s -i /verif/seeded/$v/patch.diff || echo "PATCH FAILED $v"; mkdir -p $s/.verif; cp known_findings.json $s/.verif/; echo "== $v"; for i in 01 02 03 04 05 06 07 08 09 10 11 12 13 14 15 16 17 18 19 20; do GOAT_REPO=$s VERIF_DIR=$s/.verif bin/goatcheck C$i quick 2>&1 | grep -E "^(VIOLATION C|UNDECIDED|BROKEN)" | cut -c1-250; done; rm -rf $s; done
