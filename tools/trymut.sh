#!/bin/bash
# usage: trymut.sh <Cnn[,Cnn..]> <relative-file> <perl-substitution> — applies a one-off edit to a scratch
# copy of /repo (outside /repo and /verif), checks it still builds, runs the checks, removes the copy.
set -u
export GOFLAGS=-mod=mod GOPROXY=off GOSUMDB=off GOTOOLCHAIN=local
unset GOWORK
props=$1; file=$2; expr=$3
d=$(mktemp -d /tmp/goatmut.XXXXXX)
rsync -a --exclude .git /repo/ $d/
[ -n "${BASE_VARIANT:-}" ] && patch -p1 -s -d $d -i /verif/seeded/$BASE_VARIANT/patch.diff
cp $d/$file $d/.orig
perl -0pi -e "$expr" $d/$file
if diff -q $d/.orig $d/$file >/dev/null; then echo "MUTATION DID NOT APPLY"; rm -rf $d; exit 3; fi
(cd $d && go build ./... 2>&1 | head -5)
mkdir -p $d/.verif; cp /verif/known_findings.json $d/.verif/
for p in ${props//,/ }; do
  GOAT_REPO=$d VERIF_DIR=$d/.verif /verif/bin/goatcheck $p quick | grep -E "^(VIOLATION|UNDECIDED|OK|BROKEN)" | cut -c1-400
done
rm -rf $d
