package main

import (
	"fmt"
	"go/token"
	"go/types"
	"os"
	"sort"
	"strings"

	"golang.org/x/tools/go/packages"
	"golang.org/x/tools/go/ssa"
	"golang.org/x/tools/go/ssa/ssautil"
)

const modPath = "github.com/avos-io/goat"

// Short package names used throughout the role table.
var scopePkgs = map[string]string{
	"goat":   modPath,
	"int":    modPath + "/internal",
	"client": modPath + "/internal/client",
	"server": modPath + "/internal/server",
	"types":  modPath + "/types",
}

const protoPkg = modPath + "/gen/goatorepo"

// Prog is the resolved program every engine works on.
type Prog struct {
	Dir   string
	Fset  *token.FileSet
	Pkgs  []*packages.Package
	SSA   *ssa.Program
	byPkg map[string]*ssa.Package
	// Funcs: every function (named, method, anonymous) of the in-scope packages.
	Funcs   []*ssa.Function
	inScope map[*ssa.Function]bool
	// All functions of the whole program (for stores to goat-owned fields from out of scope callers: none expected).
	nPackages int
	// Renames: unexported names spelt back to the frozen inventory before analysis (rename.go)
	Renames []string
	Inlined []string

	// lazily built engines
	callers   map[*ssa.Function][]callSite // resolved in-scope call sites per callee
	callersOK bool
	orig      *originEngine
	locks     *lockEngine
	blocks    *blockEngine
	factsMemo map[*ssa.Function]*factResult
	closureParents map[*ssa.Function][]*ssa.MakeClosure
	fieldStores map[fieldKey][]*ssa.Store
	fieldStoresOK bool
	fnKeyMemo map[string]*ssa.Function
	roleMemo  map[*ssa.Function]string
	chanUsesMemo []chanUse
	cnameMemo map[*ssa.Function]string
	basesMemo map[ssa.Value]map[ssa.Value]bool
	ctorMemo map[*ssa.Function]*ssa.Alloc
	envMemo []*Envelope
	noRet map[*ssa.BasicBlock]bool
}

type BrokenError struct{ msg string }

func (b BrokenError) Error() string { return b.msg }

func broken(format string, a ...any) {
	panic(BrokenError{fmt.Sprintf(format, a...)})
}

var loadMinFuncs = 100

var renameNormalisation = true

func loadProg(dir string, tags string, goarch string) *Prog {
	env := append(os.Environ(), "GOFLAGS=-mod=mod", "GOPROXY=off", "GOSUMDB=off", "GOTOOLCHAIN=local", "GOWORK=off")
	if goarch != "" {
		env = append(env, "GOARCH="+goarch)
	}
	cfg := &packages.Config{
		Mode:  packages.LoadAllSyntax,
		Dir:   dir,
		Tests: false,
		Env:   env,
	}
	if tags != "" {
		cfg.BuildFlags = []string{"-tags=" + tags}
	}
	pkgs, err := packages.Load(cfg, "./...")
	if err != nil {
		broken("packages.Load: %v", err)
	}
	if len(pkgs) == 0 {
		broken("packages.Load: zero packages under %s", dir)
	}
	nerr := 0
	packages.Visit(pkgs, nil, func(p *packages.Package) {
		for _, e := range p.Errors {
			if strings.HasPrefix(p.PkgPath, modPath) {
				fmt.Fprintf(os.Stderr, "load error: %s: %v\n", p.PkgPath, e)
				nerr++
			}
		}
	})
	if nerr > 0 {
		broken("%d load/type errors in %s", nerr, modPath)
	}
	// rename normalisation (rename.go): spell renamed unexported names back to the frozen ones in an overlay
	var renames, inlined []string
	var curOverlay map[string][]byte
	fieldAlias = map[fieldKey]fieldKey{}
	reload := func(ov map[string][]byte) []*packages.Package {
		cfg2 := *cfg
		cfg2.Overlay = ov
		pkgs2, err2 := packages.Load(&cfg2, "./...")
		if err2 != nil || len(pkgs2) == 0 {
			return nil
		}
		bad := false
		packages.Visit(pkgs2, nil, func(p *packages.Package) {
			if strings.HasPrefix(p.PkgPath, modPath) && len(p.Errors) > 0 {
				bad = true
				if os.Getenv("GOATCHECK_DEBUG") != "" {
					for _, e := range p.Errors {
						fmt.Fprintf(os.Stderr, "overlay error: %v\n", e)
					}
				}
			}
		})
		if bad {
			return nil
		}
		return pkgs2
	}
	if renameNormalisation && os.Getenv("GOATCHECK_NO_RENAME") == "" && len(pkgs) > 0 {
		frozen := frozenInventory()
		if pairs := matchRenames(frozen, inventoryOf(pkgs)); len(pairs) > 0 {
			ov, err := renameOverlay(pkgs, pkgs[0].Fset, pairs)
			if err == nil {
				if pkgs2 := reload(ov); pkgs2 != nil {
					pkgs, curOverlay = pkgs2, ov
					for _, pr := range pairs {
						renames = append(renames, pr.String())
					}
					sort.Strings(renames)
				} else {
					fmt.Fprintf(os.Stderr, "rename normalisation abandoned (overlay does not type-check); continuing with the tree as written\n")
				}
			}
		}
		fieldAlias = movedFields(frozen, inventoryOf(pkgs))
		for k, v := range fieldAlias {
			renames = append(renames, fmt.Sprintf("field %s analysed as %s (moved into a nested struct)", k, v))
		}
		sort.Strings(renames)
		// helper normalisation (inline.go): splice new helper functions back into their callers
		if os.Getenv("GOATCHECK_NO_INLINE") == "" {
			for pass := 0; pass < inlineMaxPasses; pass++ {
				res, err := inlinePass(pkgs, frozen, curOverlay)
				if err != nil {
					fmt.Fprintf(os.Stderr, "helper normalisation abandoned: %v\n", err)
					break
				}
				if !res.changed {
					for _, n := range res.notes {
						if strings.Contains(n, "left in place") {
							inlined = append(inlined, n)
						}
					}
					break
				}
				pkgs2 := reload(res.overlay)
				if pkgs2 == nil {
					fmt.Fprintf(os.Stderr, "helper normalisation: pass %d does not type-check; keeping the result of the previous passes\n", pass+1)
					inlined = append(inlined, fmt.Sprintf("pass %d abandoned (spliced text did not type-check)", pass+1))
					if os.Getenv("GOATCHECK_DEBUG") != "" {
						for f, b := range res.overlay {
							os.WriteFile("/tmp/goatcheck_overlay_"+strings.ReplaceAll(strings.TrimPrefix(f, dir), "/", "_"), b, 0o644)
						}
					}
					break
				}
				pkgs, curOverlay = pkgs2, res.overlay
				for _, n := range res.notes {
					if !strings.Contains(n, "left in place") {
						inlined = append(inlined, n)
					}
				}
			}
		}
	}
	prog, spkgs := ssautil.AllPackages(pkgs, ssa.InstantiateGenerics)
	prog.Build()
	p := &Prog{Dir: dir, Fset: prog.Fset, Pkgs: pkgs, SSA: prog, byPkg: map[string]*ssa.Package{}, inScope: map[*ssa.Function]bool{}}
	p.Renames = renames
	p.Inlined = inlined
	for _, sp := range spkgs {
		if sp != nil {
			p.byPkg[sp.Pkg.Path()] = sp
		}
	}
	for _, sp := range prog.AllPackages() {
		if _, ok := p.byPkg[sp.Pkg.Path()]; !ok {
			p.byPkg[sp.Pkg.Path()] = sp
		}
	}
	p.nPackages = len(pkgs)
	for short, path := range scopePkgs {
		if p.byPkg[path] == nil {
			broken("in-scope package %s (%s) not loaded", short, path)
		}
	}
	// Collect in-scope functions.
	all := ssautil.AllFunctions(prog)
	for f := range all {
		if f.Pkg == nil && f.Parent() == nil {
			// synthetic wrappers/instantiations: attribute by object package
			continue
		}
		root := f
		for root.Parent() != nil {
			root = root.Parent()
		}
		if root.Pkg == nil {
			continue
		}
		if !isScopePath(root.Pkg.Pkg.Path()) {
			continue
		}
		if f.Synthetic != "" && f.Blocks == nil {
			continue
		}
		if f.Blocks == nil {
			continue
		}
		if strings.HasPrefix(f.Synthetic, "wrapper") || strings.HasPrefix(f.Synthetic, "bound") || strings.HasPrefix(f.Synthetic, "thunk") {
			continue
		}
		if f.Name() == "init" && f.Synthetic != "" {
			continue
		}
		p.Funcs = append(p.Funcs, f)
		p.inScope[f] = true
	}
	// AllFunctions is reachability-based; also take every declared function and method of the in-scope
	// packages (unexported, uncalled ones included) and their closures.
	var addFn func(f *ssa.Function)
	addFn = func(f *ssa.Function) {
		if f == nil || f.Blocks == nil || p.inScope[f] || f.Synthetic != "" {
			return
		}
		p.Funcs = append(p.Funcs, f)
		p.inScope[f] = true
		for _, a := range f.AnonFuncs {
			addFn(a)
		}
	}
	for _, path := range scopePkgs {
		sp := p.byPkg[path]
		for _, m := range sp.Members {
			switch x := m.(type) {
			case *ssa.Function:
				if x.Name() != "init" {
					addFn(x)
				}
			case *ssa.Type:
				for _, tt := range []types.Type{x.Type(), types.NewPointer(x.Type())} {
					ms := prog.MethodSets.MethodSet(tt)
					for i := 0; i < ms.Len(); i++ {
						if fn, ok := ms.At(i).Obj().(*types.Func); ok && fn.Pkg() != nil && fn.Pkg().Path() == path {
							addFn(prog.FuncValue(fn))
						}
					}
				}
			}
		}
	}
	sort.Slice(p.Funcs, func(i, j int) bool { return p.fnKey(p.Funcs[i]) < p.fnKey(p.Funcs[j]) })
	if len(p.Funcs) < loadMinFuncs {
		broken("only %d in-scope functions found (floor %d)", len(p.Funcs), loadMinFuncs)
	}
	return p
}

func isScopePath(path string) bool {
	for _, sp := range scopePkgs {
		if sp == path {
			return true
		}
	}
	return false
}

func shortPkg(path string) string {
	for s, sp := range scopePkgs {
		if sp == path {
			return s
		}
	}
	if path == protoPkg {
		return "pb"
	}
	if i := strings.LastIndex(path, "/"); i >= 0 {
		return path[i+1:]
	}
	return path
}

// fnKey: stable, position-free name of a function: pkg.Recv.Name or parent$k
func (p *Prog) fnKey(f *ssa.Function) string {
	if f == nil {
		return "<nil>"
	}
	if f.Parent() != nil {
		return p.fnKey(f.Parent()) + "$" + strings.TrimPrefix(f.Name()[strings.LastIndex(f.Name(), "$")+1:], "$")
	}
	pk := ""
	if f.Pkg != nil {
		pk = shortPkg(f.Pkg.Pkg.Path())
	} else if f.Object() != nil && f.Object().Pkg() != nil {
		pk = shortPkg(f.Object().Pkg().Path())
	}
	if recv := f.Signature.Recv(); recv != nil {
		t := recv.Type()
		if pt, ok := t.(*types.Pointer); ok {
			t = pt.Elem()
		}
		if n, ok := t.(*types.Named); ok {
			return pk + "." + n.Obj().Name() + "." + f.Name()
		}
	}
	return pk + "." + f.Name()
}

// Fn resolves "pkg.Name" or "pkg.Recv.Name" (short package names) to a function; nil if absent.
func (p *Prog) Fn(key string) *ssa.Function {
	parts := strings.Split(key, ".")
	path, ok := scopePkgs[parts[0]]
	if !ok {
		if parts[0] == "pb" {
			path = protoPkg
		} else {
			return nil
		}
	}
	sp := p.byPkg[path]
	if sp == nil {
		return nil
	}
	switch len(parts) {
	case 2:
		return sp.Func(parts[1])
	case 3:
		m := sp.Members[parts[1]]
		tn, ok := m.(*ssa.Type)
		if !ok {
			return nil
		}
		t := tn.Type()
		for _, tt := range []types.Type{types.NewPointer(t), t} {
			ms := p.SSA.MethodSets.MethodSet(tt)
			for i := 0; i < ms.Len(); i++ {
				sel := ms.At(i)
				if sel.Obj().Name() == parts[2] {
					if f := p.SSA.MethodValue(sel); f != nil && f.Synthetic == "" {
						return f
					}
					// promoted/wrapper: find declared
					if fn, ok := sel.Obj().(*types.Func); ok {
						return p.SSA.FuncValue(fn)
					}
				}
			}
		}
	}
	return nil
}

// MustFn is Fn but records an unresolved anchor.
func (p *Prog) MustFn(key string) *ssa.Function {
	f := p.Fn(key)
	if f == nil || f.Blocks == nil {
		panic(UnresolvedError{"function " + key})
	}
	return f
}

type UnresolvedError struct{ what string }

func (u UnresolvedError) Error() string { return "unresolved anchor: " + u.what }

// Anons returns the anonymous functions directly or transitively nested in f, in source order.
func (p *Prog) Anons(f *ssa.Function) []*ssa.Function {
	var out []*ssa.Function
	var rec func(g *ssa.Function)
	rec = func(g *ssa.Function) {
		for _, a := range g.AnonFuncs {
			out = append(out, a)
			rec(a)
		}
	}
	rec(f)
	return out
}

func (p *Prog) pos(ps token.Pos) string {
	if !ps.IsValid() {
		return "-"
	}
	po := p.Fset.Position(ps)
	fn := po.Filename
	if strings.HasPrefix(fn, p.Dir+"/") {
		fn = fn[len(p.Dir)+1:]
	}
	return fmt.Sprintf("%s:%d", fn, po.Line)
}

// instrPos gives the best available position for an instruction.
func (p *Prog) ipos(i ssa.Instruction) string {
	if i == nil {
		return "-"
	}
	ps := i.Pos()
	if !ps.IsValid() {
		if v, ok := i.(ssa.Value); ok {
			_ = v
		}
		// search operands
		for _, op := range i.Operands(nil) {
			if *op != nil && (*op).Pos().IsValid() {
				ps = (*op).Pos()
				break
			}
		}
	}
	if !ps.IsValid() && i.Parent() != nil {
		ps = i.Parent().Pos()
	}
	return p.pos(ps)
}

// NamedStruct finds the in-scope named struct type pkg.Name.
func (p *Prog) NamedStruct(key string) (*types.Named, *types.Struct) {
	parts := strings.Split(key, ".")
	path, ok := scopePkgs[parts[0]]
	if !ok {
		if parts[0] == "pb" {
			path = protoPkg
		} else {
			panic(UnresolvedError{"type " + key})
		}
	}
	sp := p.byPkg[path]
	if sp == nil {
		panic(UnresolvedError{"type " + key})
	}
	tn, ok := sp.Members[parts[1]].(*ssa.Type)
	if !ok {
		panic(UnresolvedError{"type " + key})
	}
	n := tn.Type().(*types.Named)
	st, ok := n.Underlying().(*types.Struct)
	if !ok {
		panic(UnresolvedError{"type " + key + " is not a struct"})
	}
	return n, st
}
