package main

// Context ancestry (special case of E5): unfold the origin terms of a context.Context through the
// constructors that return a child of their context argument, down to root contexts; collect the
// constructor calls met on the way (each names a cancel function).

import (
	"sort"
	"strings"

	"golang.org/x/tools/go/ssa"
)

type ctxAncestry struct {
	Roots map[string]bool // terminal origin terms (params, Background, unknown)
	Ctors map[string]bool // context.With* / contextFromHeaders calls on the chain (rendered)
}

func (a *ctxAncestry) RootList() []string {
	var o []string
	for k := range a.Roots {
		o = append(o, k)
	}
	sort.Strings(o)
	return o
}
func (a *ctxAncestry) CtorList() []string {
	var o []string
	for k := range a.Ctors {
		o = append(o, k)
	}
	sort.Strings(o)
	return o
}

// parentArg: which argument of a context-deriving call is the parent context (-1: not a deriving call).
func ctxParentArg(t *Term) int {
	if t.Op != "call" {
		return -1
	}
	n := t.Name
	switch {
	case strings.HasPrefix(n, "context.WithCancel#0"), strings.HasPrefix(n, "context.WithTimeout#0"),
		strings.HasPrefix(n, "context.WithDeadline#0"), strings.HasPrefix(n, "context.WithCancelCause#0"),
		n == "context.WithValue":
		return 0
	case strings.HasSuffix(n, "metadata.NewIncomingContext"), strings.HasSuffix(n, "metadata.NewOutgoingContext"):
		return 0
	case strings.HasSuffix(n, "grpc.NewContextWithServerTransportStream"):
		return 0
	case n == "goat.contextFromHeaders#0":
		return 0
	case strings.HasSuffix(n, "errgroup.WithContext#1"):
		return 0
	case n == "int.StatsStartServerRPC":
		return len(t.Args) - 1
	case strings.HasSuffix(n, "stats.Handler).TagRPC"), strings.HasSuffix(n, "stats.Handler).TagConn"):
		return 1 // receiver, ctx, info
	}
	return -1
}

func ctxAncestryOf(ts TermSet) *ctxAncestry {
	a := &ctxAncestry{Roots: map[string]bool{}, Ctors: map[string]bool{}}
	seen := map[*Term]bool{}
	var rec func(t *Term)
	rec = func(t *Term) {
		if t == nil || seen[t] {
			return
		}
		seen[t] = true
		switch t.Op {
		case "phi":
			for _, x := range t.Args {
				rec(x)
			}
			return
		case "cycle", "more", "none":
			return
		}
		if i := ctxParentArg(t); i >= 0 && i < len(t.Args) {
			if strings.HasPrefix(t.Name, "context.With") || t.Name == "goat.contextFromHeaders#0" {
				a.Ctors[ctorKey(t)] = true
			}
			rec(t.Args[i])
			return
		}
		if t.Op == "call" && t.Name == "context.Background" || t.Op == "call" && t.Name == "context.TODO" {
			a.Roots["Background"] = true
			return
		}
		a.Roots[t.String()] = true
	}
	for _, t := range ts.List() {
		rec(t)
	}
	return a
}

// ctorKey identifies a constructor call irrespective of which result is taken.
func ctorKey(t *Term) string {
	n := t.Name
	if i := strings.Index(n, "#"); i >= 0 {
		n = n[:i]
	}
	var as []string
	for _, a := range t.Args {
		as = append(as, a.short())
	}
	return n + "(" + strings.Join(as, ",") + ")"
}

// cancelCtors: the constructor calls a cancel-function value stems from.
func cancelCtorsOf(ts TermSet) map[string]bool {
	out := map[string]bool{}
	var rec func(t *Term)
	rec = func(t *Term) {
		if t == nil {
			return
		}
		if t.Op == "phi" {
			for _, x := range t.Args {
				rec(x)
			}
			return
		}
		if t.Op == "call" && (strings.HasPrefix(t.Name, "context.With") && strings.HasSuffix(t.Name, "#1") || t.Name == "goat.contextFromHeaders#1") {
			out[ctorKey(t)] = true
		}
	}
	for _, t := range ts {
		rec(t)
	}
	return out
}

func (p *Prog) ancestryOfValue(v ssa.Value) *ctxAncestry {
	return ctxAncestryOf(p.Origins().Of(v))
}

func anyHasPrefix(m map[string]bool, pre string) bool {
	for k := range m {
		if strings.HasPrefix(k, pre) {
			return true
		}
	}
	return false
}

func anyContains(m map[string]bool, sub string) bool {
	for k := range m {
		if strings.Contains(k, sub) {
			return true
		}
	}
	return false
}
