package main

import (
	"go/token"
	"sort"
	"strconv"
	"strings"

	"golang.org/x/tools/go/ssa"
)

// callsTo: call instructions (Call, Defer, Go) in f (optionally including nested closures) whose resolved
// callee key / full name contains name.
func (p *Prog) callsTo(f *ssa.Function, name string, nested bool) []ssa.CallInstruction {
	var out []ssa.CallInstruction
	fns := []*ssa.Function{f}
	if nested {
		fns = p.withAnons(f)
	}
	for _, g := range fns {
		allInstrs(g, func(i ssa.Instruction) {
			ci, ok := i.(ssa.CallInstruction)
			if !ok {
				return
			}
			cc := ci.Common()
			n := calleeName(cc)
			if sc := cc.StaticCallee(); sc != nil && p.inScope[sc] {
				n = p.fnKey(sc) + " " + n
			}
			if strings.Contains(n, name) {
				out = append(out, ci)
			}
		})
	}
	return out
}

func (p *Prog) oneCall(f *ssa.Function, name string, nested bool) ssa.CallInstruction {
	cs := p.callsTo(f, name, nested)
	if len(cs) != 1 {
		panic(UnresolvedError{"exactly one call to " + name + " in " + p.fnKey(f) + " (found " + itoa(len(cs)) + ")"})
	}
	return cs[0]
}

func itoa(n int) string { return strconv.Itoa(n) }

// transportOps: invoke of RpcReadWriter.Read/Write in f.
func (p *Prog) transportOps(f *ssa.Function, method string, nested bool) []*ssa.Call {
	var out []*ssa.Call
	fns := []*ssa.Function{f}
	if nested {
		fns = p.withAnons(f)
	}
	for _, g := range fns {
		allInstrs(g, func(i ssa.Instruction) {
			c, ok := i.(*ssa.Call)
			if !ok || !c.Call.IsInvoke() {
				return
			}
			if strings.HasPrefix(calleeName(&c.Call), rwIface) && c.Call.Method.Name() == method {
				out = append(out, c)
			}
		})
	}
	return out
}

// extractOf: the Extract #idx of a tuple-valued call, or nil.
func extractOf(c ssa.Value, idx int) *ssa.Extract {
	refs := c.Referrers()
	if refs == nil {
		return nil
	}
	for _, r := range *refs {
		if e, ok := r.(*ssa.Extract); ok && e.Index == idx {
			return e
		}
	}
	return nil
}

// stripConv follows ChangeType/MakeInterface/ChangeInterface.
func stripConv(v ssa.Value) ssa.Value {
	for {
		switch x := v.(type) {
		case *ssa.ChangeType:
			v = x.X
		case *ssa.MakeInterface:
			v = x.X
		case *ssa.ChangeInterface:
			v = x.X
		default:
			return v
		}
	}
}

// derefLocal: if v is a load of a local cell with a single store, the stored value.
func (p *Prog) derefLocal(v ssa.Value) ssa.Value {
	for k := 0; k < 4; k++ {
		ld, ok := v.(*ssa.UnOp)
		if !ok || ld.Op != token.MUL {
			return v
		}
		switch a := ld.X.(type) {
		case *ssa.Alloc:
			st := p.cellStores(a)
			if len(st) != 1 {
				return v
			}
			v = st[0].Val
		case *ssa.FreeVar:
			bs := p.freeVarBindings(a)
			if len(bs) != 1 {
				return v
			}
			al, ok := bs[0].(*ssa.Alloc)
			if !ok {
				return v
			}
			st := p.cellStores(al)
			if len(st) != 1 {
				return v
			}
			v = st[0].Val
		default:
			return v
		}
	}
	return v
}

// sameValue: SSA identity modulo conversions and single-assignment local cells / captures.
func (p *Prog) sameValue(a, b ssa.Value) bool {
	a, b = p.derefLocal(stripConv(a)), p.derefLocal(stripConv(b))
	if a == b {
		return true
	}
	// free variable bound to the value
	if fv, ok := a.(*ssa.FreeVar); ok {
		for _, bd := range p.freeVarBindings(fv) {
			if p.sameValue(bd, b) {
				return true
			}
		}
	}
	if fv, ok := b.(*ssa.FreeVar); ok {
		for _, bd := range p.freeVarBindings(fv) {
			if p.sameValue(a, bd) {
				return true
			}
		}
	}
	return false
}

// returnsOf: Return instructions of f.
func returnsOf(f *ssa.Function) []*ssa.Return {
	var out []*ssa.Return
	allInstrs(f, func(i ssa.Instruction) {
		if r, ok := i.(*ssa.Return); ok && r.Block() != f.Recover {
			out = append(out, r)
		}
	})
	return out
}

// goTargets: functions started by `go` statements in f (not nested).
func (p *Prog) goStmts(f *ssa.Function) []*ssa.Go {
	var out []*ssa.Go
	allInstrs(f, func(i ssa.Instruction) {
		if g, ok := i.(*ssa.Go); ok {
			out = append(out, g)
		}
	})
	return out
}

// closureWith: the anonymous function nested in f that satisfies pred (exactly one), else unresolved.
func (p *Prog) closureWith(f *ssa.Function, what string, pred func(*ssa.Function) bool) *ssa.Function {
	var hits []*ssa.Function
	for _, a := range p.Anons(f) {
		if pred(a) {
			hits = append(hits, a)
		}
	}
	if len(hits) != 1 {
		panic(UnresolvedError{what + " in " + p.fnKey(f)})
	}
	return hits[0]
}

// recvsFromField: f contains a receive (bare or select) from a channel that is field `name`.
func (p *Prog) recvsFromField(f *ssa.Function, name string) bool {
	found := false
	for _, u := range p.chanUsesIn(f) {
		if u.kind == "recv" && p.chanDesc(u.ch) == name {
			found = true
		}
	}
	return found
}

func (p *Prog) sendsOnField(f *ssa.Function, name string) bool {
	for _, u := range p.chanUsesIn(f) {
		if u.kind == "send" && p.chanDesc(u.ch) == name {
			return true
		}
	}
	return false
}

func (p *Prog) chanUsesIn(f *ssa.Function) []chanUse {
	var out []chanUse
	for _, u := range p.chanUses() {
		if u.instr.Parent() == f {
			out = append(out, u)
		}
	}
	return out
}

func sortedStrings(m map[string]bool) []string {
	var o []string
	for k := range m {
		o = append(o, k)
	}
	sort.Strings(o)
	return o
}

// retVals: the values a Return yields, looking through the result cells go/ssa spills to when the
// function has defers (stores, rundefers, loads, return — all in the returning block).
func retVals(r *ssa.Return) []ssa.Value {
	out := make([]ssa.Value, len(r.Results))
	for k, res := range r.Results {
		out[k] = res
		ld, ok := res.(*ssa.UnOp)
		if !ok || ld.Op != token.MUL {
			continue
		}
		cell, ok := ld.X.(*ssa.Alloc)
		if !ok {
			continue
		}
		// last store to the cell in this block before the load
		var last ssa.Value
		for _, i := range r.Block().Instrs {
			if i == ssa.Instruction(ld) {
				break
			}
			if s, ok := i.(*ssa.Store); ok && s.Addr == cell {
				last = s.Val
			}
		}
		if last != nil {
			out[k] = last
		}
	}
	return out
}

// cname: name of a function for use in construct keys. Named functions keep their key; closures are named
// after the role they play (reader/writer handed to NewFnReadWriter, goroutine body by the queue it serves,
// deferred block) so that inserting an unrelated closure does not rename them.
func (p *Prog) cname(f *ssa.Function) string {
	if f.Parent() == nil {
		if r := p.roleName(f); r != "" {
			return r
		}
		return p.fnKey(f)
	}
	if p.cnameMemo == nil {
		p.cnameMemo = map[*ssa.Function]string{}
	}
	if s, ok := p.cnameMemo[f]; ok {
		return s
	}
	parent := p.cname(f.Parent())
	name := ""
	for _, mc := range p.closureMakes(f) {
		refs := mc.Referrers()
		if refs == nil {
			continue
		}
		for _, r := range *refs {
			switch x := r.(type) {
			case *ssa.Go:
				var qs []string
				for _, u := range p.chanUsesIn(f) {
					if u.kind == "recv" && p.chanDesc(u.ch) != "Done()" {
						qs = append(qs, p.chanDesc(u.ch))
					}
				}
				sort.Strings(qs)
				name = "$go:" + strings.Join(dedup(qs), "+")
			case *ssa.Defer:
				k := 0
				allInstrs(f.Parent(), func(i ssa.Instruction) {
					if d, ok := i.(*ssa.Defer); ok {
						if _, isC := d.Call.Value.(*ssa.MakeClosure); isC && d.Pos() < x.Pos() {
							k++
						}
					}
				})
				name = "$deferred" + strconv.Itoa(k+1)
			case *ssa.Call:
				if sc := x.Call.StaticCallee(); sc != nil && p.inScope[sc] && p.fnKey(sc) == "int.NewFnReadWriter" {
					if len(x.Call.Args) == 2 && x.Call.Args[0] == ssa.Value(mc) {
						name = "$reader"
					} else {
						name = "$writer"
					}
				}
			case *ssa.Store:
				if fa, ok := x.Addr.(*ssa.FieldAddr); ok {
					name = "$" + fieldName(fa)
				}
			}
		}
	}
	if name == "" {
		k := p.fnKey(f)
		name = k[strings.LastIndex(k, "$"):]
	}
	p.cnameMemo[f] = parent + name
	return parent + name
}

// deferredCallTo: a Defer in f that, when it runs, calls the function `key`: either `defer key(...)` directly or a
// deferred closure whose every path calls it. Returns the Defer and the call whose arguments matter.
func (p *Prog) deferredCallTo(f *ssa.Function, key string) (*ssa.Defer, ssa.CallInstruction) {
	var d0 *ssa.Defer
	var c0 ssa.CallInstruction
	allInstrs(f, func(i ssa.Instruction) {
		d, ok := i.(*ssa.Defer)
		if !ok {
			return
		}
		if sc := d.Call.StaticCallee(); sc != nil && p.inScope[sc] && p.fnKey(sc) == key {
			d0, c0 = d, d
			return
		}
		if mc, ok := d.Call.Value.(*ssa.MakeClosure); ok {
			fn := mc.Fn.(*ssa.Function)
			cs := p.callsTo(fn, key+" ", false)
			if len(cs) == 1 && p.mustPass(fn.Blocks[0].Instrs[0], func(j ssa.Instruction) bool { return j == cs[0].(ssa.Instruction) }, false) == nil {
				d0, c0 = d, cs[0]
			}
			if len(cs) == 1 && fn.Blocks[0].Instrs[0] == cs[0].(ssa.Instruction) {
				d0, c0 = d, cs[0]
			}
		}
	})
	return d0, c0
}

// callsToFn: call instructions in f whose resolved static callee is g.
func (p *Prog) callsToFn(f, g *ssa.Function) []ssa.CallInstruction {
	var out []ssa.CallInstruction
	allInstrs(f, func(i ssa.Instruction) {
		if ci, ok := i.(ssa.CallInstruction); ok {
			if ci.Common().StaticCallee() == g {
				out = append(out, ci)
			}
		}
	})
	return out
}
