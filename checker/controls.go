package main

// Positive controls (vacuity guard): every run analyses the fixture module under testdata/fixture with the same
// engines and fails as BROKEN if a violating instance is not reported or a conforming one is.

import (
	"fmt"
	"os"
	"path/filepath"
	"strings"

	"golang.org/x/tools/go/ssa"
)

type control struct {
	rule      string
	construct string // substring of the construct key
	want      string // "violation" | "pass"
}

var controls = []control{
	{"G1", "goat.handler.badForwardUnderLock:send", "violation"},
	{"G1", "goat.handler.goodForwardAfterUnlock", "pass"},
	{"G3", "goat.handler.badUnguardedLen:goat.handler.streams", "violation"},
	{"G3", "goat.handler.goodGuardedLen:goat.handler.streams", "pass"},
	{"G4", "close:goat.Demux.closeUnderLock:r/send:goat.Demux.badSendAfterUnlock:r", "violation"},
	{"G5", "goat.handler.badBareSendLoop$go::send:out", "violation"},
	{"G5", "goat.handler.goodEscapableSendLoop$go::select", "pass"},
	{"G6", "goat.handler.badPanicOnPeerData:panic", "violation"},
	{"G6", "goat.goodPanicOnLocalArgument:panic", "pass"},
	{"G7", "goat.badDerefHeader:Header.Method", "violation"},
	{"G7", "goat.goodDerefHeader:Header.Method", "pass"},
	{"G8", "goat.badCancelDropped:WithCancel", "violation"},
	{"G8", "goat.goodCancelDeferred:WithCancel", "pass"},
}

var controlsSummary map[string]any

func runPositiveControls() {
	dir := filepath.Join(verifDir(), "checker", "testdata", "fixture")
	if _, err := os.Stat(dir); err != nil {
		// evidence may be redirected (VERIF_DIR) while the checker sources stay next to the binary
		if exe, e2 := os.Executable(); e2 == nil {
			dir = filepath.Join(filepath.Dir(filepath.Dir(exe)), "checker", "testdata", "fixture")
		}
	}
	if _, err := os.Stat(dir); err != nil {
		// a run from a snapshot without the fixture must not pass silently
		broken("positive-control fixture missing at %s", dir)
	}
	old := loadMinFuncs
	loadMinFuncs = 10
	renameNormalisation = false // the fixture is its own small program, not a renamed goat
	savedAlias := fieldAlias
	defer func() { fieldAlias = savedAlias }()
	p := loadProg(dir, "", "")
	renameNormalisation = true
	loadMinFuncs = old
	c := &Ctx{p: p, prop: "CONTROL"}
	all := func(*ssa.Function) bool { return true }
	c.guard("G1", func() { ruleNoBlockUnderRegistryLock(c, "G1", allLocks) })
	c.guard("G3", func() {
		ruleGuardedFields(c, "G3", func(g guardEntry) bool { return g.owner == "goat.handler" || strings.HasPrefix(g.owner, "goat.Demux") })
	})
	c.guard("G4", func() { ruleCloseSendExclusion(c, "G4", nil) })
	c.guard("G5", func() { ruleEscapable(c, "G5", p.Funcs, nil, nil) })
	c.guard("G6", func() { rulePanicReachability(c, "G6", nil) })
	c.guard("G7", func() { ruleOptionalSubMsgNilChecked(c, "G7", all, nil) })
	c.guard("G8", func() {
		ruleCancelNotDropped(c, "G8")
	})
	var bad []string
	for _, k := range controls {
		got := "absent"
		for _, o := range c.obs {
			if o.Rule == k.rule && strings.Contains(o.Construct, k.construct) {
				if o.Status == "violation" || got == "absent" {
					got = o.Status
				}
			}
		}
		if got != k.want {
			bad = append(bad, fmt.Sprintf("%s %s: want %s, got %s", k.rule, k.construct, k.want, got))
		}
	}
	controlsSummary = map[string]any{"fixture": "checker/testdata/fixture", "controls": len(controls), "failed": bad}
	if len(bad) > 0 {
		broken("positive controls failed (the engines no longer report a planted violation, or report a planted conforming instance): %s", strings.Join(bad, "; "))
	}
}

