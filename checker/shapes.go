package main

// E7 `shapes` — catalogue of constructed envelopes (allocations of goatorepo.Rpc with field stores).

import (
	"sort"
	"strings"

	"golang.org/x/tools/go/ssa"
)

type fieldShape struct {
	Stores   []*ssa.Store
	Must     bool // some store dominates every sink of the envelope
	MaybeNil bool // a stored value may be nil
	Origins  TermSet
}

type Envelope struct {
	Alloc   *ssa.Alloc
	Fn      *ssa.Function // function containing the allocation
	Side    string        // client | server | other
	Fields  map[string]*fieldShape
	Header  *ssa.Alloc // nested header literal, if the Header field is a local allocation
	HFields map[string]*fieldShape
	Sinks   []ssa.Instruction // instructions through which the envelope leaves the function
	Key     string
}

var rpcFields = []string{"Id", "Header", "Status", "Body", "Trailer", "Reset_"}
var hdrFields = []string{"Method", "Headers", "Source", "Destination", "ProxyRecord", "ProxyNext"}

func (p *Prog) sideOf(f *ssa.Function) string {
	k := p.fnKey(rootFn(f))
	switch {
	case strings.HasPrefix(k, "client."), strings.HasPrefix(k, "goat.ClientConn."):
		return "client"
	case strings.HasPrefix(k, "server."), strings.HasPrefix(k, "goat.handler."):
		return "server"
	}
	return "other"
}

// sinksOf: uses of the allocation as a whole (call argument, return, send, store elsewhere), including
// through loads of single-assignment cells and captures.
func (p *Prog) sinksOf(a *ssa.Alloc) []ssa.Instruction {
	var out []ssa.Instruction
	for _, al := range p.cellAliases(a) {
		refs := al.Referrers()
		if refs == nil {
			continue
		}
		for _, r := range *refs {
			switch x := r.(type) {
			case *ssa.FieldAddr:
				continue
			case ssa.CallInstruction:
				out = append(out, r)
			case *ssa.Return, *ssa.Send:
				out = append(out, r)
			case *ssa.Store:
				if x.Val == al {
					// stored into a cell: follow loads of that cell
					if cell, ok := x.Addr.(*ssa.Alloc); ok {
						for _, ca := range p.cellAliases(cell) {
							if cr := ca.Referrers(); cr != nil {
								for _, u := range *cr {
									if ld, ok := u.(*ssa.UnOp); ok {
										if lr := ld.Referrers(); lr != nil {
											for _, uu := range *lr {
												switch uu.(type) {
												case ssa.CallInstruction, *ssa.Return, *ssa.Send:
													out = append(out, uu)
												}
											}
										}
									}
								}
							}
						}
					} else {
						out = append(out, r)
					}
				}
			case *ssa.Select:
				out = append(out, r)
			case *ssa.MakeInterface:
				if rr := x.Referrers(); rr != nil {
					for _, u := range *rr {
						if _, ok := u.(ssa.CallInstruction); ok {
							out = append(out, u)
						}
					}
				}
			}
		}
	}
	return out
}

func (p *Prog) shapeOf(a *ssa.Alloc, fields []string, sinks []ssa.Instruction) map[string]*fieldShape {
	e := p.Origins()
	m := map[string]*fieldShape{}
	for _, f := range fields {
		fs := &fieldShape{Origins: TermSet{}}
		fs.Stores = p.allocFieldStores(a, f)
		for _, s := range fs.Stores {
			o := e.Of(s.Val)
			fs.Origins.addAll(o)
			for _, t := range o {
				if t.Op == "const" && t.Name == "nil" {
					fs.MaybeNil = true
				}
			}
			dom := len(sinks) > 0
			for _, sk := range sinks {
				if sk.Parent() != s.Parent() || sk.Block() == sk.Parent().Recover {
					continue
				}
				if !instrDominates(s, sk) {
					dom = false
				}
			}
			if dom {
				fs.Must = true
			}
		}
		m[f] = fs
	}
	return m
}

// Envelopes: every constructed envelope in scope (Rpc allocations that have at least one field store).
func (p *Prog) Envelopes() []*Envelope {
	var out []*Envelope
	for _, f := range p.Funcs {
		allInstrs(f, func(i ssa.Instruction) {
			a, ok := i.(*ssa.Alloc)
			if !ok || typeKey(a.Type()) != "pb.Rpc" {
				return
			}
			hasStore := false
			for _, fn := range rpcFields {
				if len(p.allocFieldStores(a, fn)) > 0 {
					hasStore = true
				}
			}
			if !hasStore {
				return
			}
			env := &Envelope{Alloc: a, Fn: f, Side: p.sideOf(f)}
			env.Sinks = p.sinksOf(a)
			env.Fields = p.shapeOf(a, rpcFields, env.Sinks)
			if hs := env.Fields["Header"].Stores; len(hs) == 1 {
				if ha, ok := hs[0].Val.(*ssa.Alloc); ok {
					env.Header = ha
					env.HFields = p.shapeOf(ha, hdrFields, env.Sinks)
				} else if ha := p.Origins().localAlloc(hs[0].Val); ha != nil {
					env.Header = ha
					env.HFields = p.shapeOf(ha, hdrFields, env.Sinks)
				}
			}
			env.Key = p.fnKey(f) + ":" + env.ShapeString()
			out = append(out, env)
		})
	}
	sort.Slice(out, func(i, j int) bool { return out[i].Key < out[j].Key })
	return out
}

// ShapeString: e.g. "Id+Header+Body?" (? = conditionally present).
func (e *Envelope) ShapeString() string {
	var parts []string
	for _, f := range rpcFields {
		fs := e.Fields[f]
		if len(fs.Stores) == 0 {
			continue
		}
		s := f
		if !fs.Must || fs.MaybeNil {
			s += "?"
		}
		parts = append(parts, s)
	}
	return strings.Join(parts, "+")
}
