package main

import (
	"fmt"
	"go/token"
	"go/types"
	"strings"

	"golang.org/x/tools/go/ssa"
)

func (p *Prog) clientStreamFns() []*ssa.Function {
	var out []*ssa.Function
	for _, f := range p.Funcs {
		k := p.fnKey(rootFn(f))
		if strings.HasPrefix(k, "client.clientStream.") {
			out = append(out, f)
		}
	}
	return out
}

// ---- C07.1 ----
func ruleStreamCtxDescends(c *Ctx, rule string) {
	p := c.p
	st := p.FieldStores(fieldKey{"client.clientStream", "ctx"})
	for _, s := range st {
		an := p.ancestryOfValue(s.Val)
		okRoots := len(an.Roots) > 0
		for r := range an.Roots {
			if !strings.HasPrefix(r, "param(goat.ClientConn.NewStream:ctx)") && !strings.HasPrefix(r, "param(goat.ClientConn.asStreamer:ctx)") {
				okRoots = false
			}
		}
		c.check(rule, "clientStream.ctx:roots", okRoots && anyHasPrefix(an.Ctors, "context.WithCancel("), fmt.Sprintf("stream context roots %v via %v; required: only the caller's NewStream context, through a cancellable child", an.RootList(), an.CtorList()), p.ipos(s))
	}
	c.floor(rule, "stores to clientStream.ctx", len(st), 1)
}

// ---- C07.2 ----
func ruleStreamBlockingHonoursCtx(c *Ctx, rule string) {
	p := c.p
	td := p.teardownClosure()
	ctxOK := func(op *BlockOp, ctx ssa.Value) (bool, string) {
		lp := p.lpath(ctx)
		ok := strings.HasSuffix(lp, ":cs.ctx") || strings.HasSuffix(lp, ":wcs.ctx")
		return ok, "context used: " + lp + " (required: the stream context cs.ctx)"
	}
	exc := map[string]string{
		"client.clientStream.Header:wait": "latch wait; its release on every exit of the read loop is rule C13.4",
	}
	var fns []*ssa.Function
	for _, f := range p.clientStreamFns() {
		if f != td {
			fns = append(fns, f)
		}
	}
	n := ruleEscapable(c, rule, fns, exc, ctxOK)
	c.floor(rule, "blocking primitives in clientStream methods", n, 6)
}

// ---- C07.3 ----
func ruleCtxErrorToStatus(c *Ctx, rule string) {
	p := c.p
	rm := p.MustFn("client.clientStream.RecvMsg")
	rl := p.MustFn("client.clientStream.readLoop")
	chk := func(f *ssa.Function, name string) {
		n := 0
		for _, u := range p.chanUsesIn(f) {
			sel, ok := u.instr.(*ssa.Select)
			if !ok || p.chanDesc(u.ch) != "Done()" {
				continue
			}
			n++
			// values derived from ctx.Err() on the Done branch must go through toStatusError
			okAll := true
			cnt := 0
			allInstrs(f, func(i ssa.Instruction) {
				cl, ok := i.(*ssa.Call)
				if !ok || !cl.Call.IsInvoke() || cl.Call.Method.Name() != "Err" || !instrDominates(sel, i) {
					return
				}
				cnt++
				for _, r := range *cl.Referrers() {
					rc, isCall := r.(*ssa.Call)
					if !isCall || rc.Call.StaticCallee() == nil || p.fnKey(rc.Call.StaticCallee()) != "client.toStatusError" {
						okAll = false
					}
				}
			})
			c.check(rule, name+":Done-branch", okAll && cnt > 0, fmt.Sprintf("%d uses of ctx.Err() after the select; each is converted by toStatusError", cnt), p.ipos(sel))
		}
		c.floor(rule, "Done cases in "+name, n, 1)
	}
	chk(rm, "RecvMsg")
	chk(rl, "readLoop")
	ts := p.MustFn("client.toStatusError")
	var globals []string
	for _, ci := range p.callsTo(ts, "errors.Is", false) {
		for _, t := range p.Origins().Of(ci.Common().Args[1]) {
			if t.Op == "global" {
				globals = append(globals, t.Name)
			}
		}
	}
	hasD, hasC := false, false
	for _, g := range globals {
		if g == "context.DeadlineExceeded" {
			hasD = true
		}
		if g == "context.Canceled" {
			hasC = true
		}
	}
	fce := p.callsTo(ts, "status.FromContextError", false)
	okArg := len(fce) == 1 && p.sameValue(fce[0].Common().Args[0], paramNamed(ts, "err"))
	c.check(rule, "toStatusError:context-errors", hasD && hasC && okArg, fmt.Sprintf("toStatusError maps both context.Canceled and context.DeadlineExceeded (%v) through status.FromContextError(err)", globals), p.pos(ts.Pos()))
}

// ---- C07.4 ----
func ruleResetOnLiveContext(c *Ctx, rule string) {
	p := c.p
	td := p.teardownClosure()
	streamAn := ctxAncestryOf(func() TermSet {
		ts := TermSet{}
		for _, s := range p.FieldStores(fieldKey{"client.clientStream", "ctx"}) {
			ts.addAll(p.Origins().Of(s.Val))
		}
		return ts
	}())
	ws := p.transportOps(td, "Write", false)
	for _, w := range ws {
		an := p.ancestryOfValue(w.Call.Args[0])
		bad := false
		for r := range an.Roots {
			if streamAn.Roots[r] {
				bad = true
			}
		}
		for k := range an.Ctors {
			if streamAn.Ctors[k] {
				bad = true
			}
		}
		c.check(rule, "teardown:reset-write-context", !bad && len(an.Roots) > 0, fmt.Sprintf("the reset is written with a context rooted in %v (via %v); it must not descend from the stream context, which is done at that point", an.RootList(), an.CtorList()), p.ipos(w))
		// bounded: a deadline constructor on the chain
		c.check(rule, "teardown:reset-write-bounded", anyHasPrefix(an.Ctors, "context.WithDeadline(") || anyHasPrefix(an.Ctors, "context.WithTimeout("), "the reset write is bounded by a deadline", p.ipos(w))
	}
	c.floor(rule, "reset writes in the teardown closure", len(ws), 1)
	// the deferred block of the read loop always calls teardown
	rl := p.MustFn("client.clientStream.readLoop")
	var dfn *ssa.Function
	for _, a := range rl.AnonFuncs {
		if isDeferredClosureOf(a, rl) {
			dfn = a
		}
	}
	if dfn == nil {
		panic(UnresolvedError{"deferred block of clientStream.readLoop"})
	}
	var tdCall ssa.Instruction
	allInstrs(dfn, func(i ssa.Instruction) {
		if cl, ok := i.(*ssa.Call); ok && !cl.Call.IsInvoke() && cl.Call.StaticCallee() == nil {
			for _, g := range p.calleesOfValue(cl.Call.Value, p.Origins()) {
				if g == td {
					tdCall = i
				}
			}
		}
	})
	okTd := tdCall != nil && p.mustPass(dfn.Blocks[0].Instrs[0], func(i ssa.Instruction) bool { return i == tdCall }, false) == nil
	c.check(rule, "readLoop.deferred:teardown-always", okTd, "every exit of the read loop runs the teardown (which sends the reset when due)", p.pos(dfn.Pos()))
	// the defer is registered before any exit of readLoop
	var dinstr *ssa.Defer
	allInstrs(rl, func(i ssa.Instruction) {
		if d, ok := i.(*ssa.Defer); ok {
			if mc, ok := d.Call.Value.(*ssa.MakeClosure); ok && mc.Fn == dfn {
				dinstr = d
			}
		}
	})
	okDom := dinstr != nil
	if okDom {
		for _, r := range returnsOf(rl) {
			if !instrDominates(dinstr, r) {
				okDom = false
			}
		}
	}
	c.check(rule, "readLoop:defer-dominates-exits", okDom, "the deferred block is registered before every return of the read loop", p.pos(rl.Pos()))
}

// ---- C07.5 ----
func ruleResetCancelsHandler(c *Ctx, rule string) {
	p := c.p
	f := p.MustFn("goat.handler.processStreamingRpc")
	has := "has:p:h.streams[p:rpc.Id]"
	n := 0
	allInstrs(f, func(i ssa.Instruction) {
		cl, ok := i.(*ssa.Call)
		if !ok || cl.Call.IsInvoke() || cl.Call.StaticCallee() != nil {
			return
		}
		if typeKey(cl.Call.Value.Type()) != "context.CancelFunc" {
			return
		}
		if p.callbackFieldDeep(cl.Call.Value) != "goat.streamHandler.cancel" {
			return // releasing a context that was never handed to a handler (pairing: C14.3)
		}
		n++
		fs := p.Facts(i)
		isReset := false
		for k := range fs {
			if strings.HasPrefix(k, "true(v:") {
				isReset = true
			}
		}
		fld := p.callbackFieldDeep(cl.Call.Value)
		c.check(rule, "processStreamingRpc:reset→cancel", fs.True(has) && isReset && fld == "goat.streamHandler.cancel", "on a reset for a registered stream the function called is that registry entry's cancel ("+fld+") under "+fs.String(), p.ipos(i))
	})
	c.floor(rule, "cancel calls in processStreamingRpc", n, 1)
	// the cancel stored in the entry and the context handed to the handler come from one contextFromHeaders call
	var ctor *ssa.Call
	for _, mu := range p.MapUpdates(fieldKey{"goat.handler", "streams"}) {
		if mu.Parent() != f {
			continue
		}
		if al := p.Origins().localAlloc(mu.Value); al != nil || true {
			var a *ssa.Alloc
			if ld, ok := mu.Value.(*ssa.UnOp); ok {
				a, _ = ld.X.(*ssa.Alloc)
			}
			if a == nil {
				continue
			}
			for _, s := range p.allocFieldStores(a, "cancel") {
				if ex, ok := s.Val.(*ssa.Extract); ok && ex.Index == 1 {
					ctor, _ = ex.Tuple.(*ssa.Call)
				}
			}
		}
	}
	okPair := false
	if ctor != nil && ctor.Call.StaticCallee() != nil && p.fnKey(ctor.Call.StaticCallee()) == "goat.contextFromHeaders" {
		for _, g := range p.goStmts(f) {
			for _, a := range g.Call.Args {
				if ex, ok := a.(*ssa.Extract); ok && ex.Tuple == ssa.Value(ctor) && ex.Index == 0 {
					okPair = true
				}
			}
		}
	}
	c.check(rule, "processStreamingRpc:cancel-pairs-with-handler-context", okPair, "the cancel function registered for the stream and the context given to runStream are results 1 and 0 of the same contextFromHeaders call", p.pos(f.Pos()))
	// the handler's context descends from that context
	rs := p.MustFn("goat.handler.runStream")
	for _, ci := range p.callsTo(rs, "server.NewServerStream", false) {
		an := p.ancestryOfValue(ci.Common().Args[0])
		c.check(rule, "runStream:stream-context-descends", anyHasPrefix(an.Ctors, "goat.contextFromHeaders("), fmt.Sprintf("context of the server stream: roots %v via %v — must pass through the per-stream context", an.RootList(), an.CtorList()), p.ipos(ci.(ssa.Instruction)))
	}
	for _, ci := range p.callsTo(rs, "server.serverStream.SetContext", false) {
		an := p.ancestryOfValue(ci.Common().Args[1])
		c.check(rule, "runStream:SetContext-descends", anyHasPrefix(an.Ctors, "goat.contextFromHeaders("), "the context installed on the stream descends from the per-stream context", p.ipos(ci.(ssa.Instruction)))
	}
}

// callbackFieldDeep: like callbackField, but sees through a local struct cell (handler.cancel where handler is a local copy).
func (p *Prog) callbackFieldDeep(v ssa.Value) string {
	if s := p.callbackField(v); s != "" {
		return s
	}
	return ""
}

// ---- C07.6 ----
func ruleHandlerBlockingHonoursCtx(c *Ctx, rule string) {
	p := c.p
	rd, wr := p.rwClosures(p.MustFn("goat.handler.runStream"))
	own := func(op *BlockOp, ctx ssa.Value) (bool, string) {
		return p.lpath(ctx) == "p:ctx", "escape context " + p.lpath(ctx) + " (required: the context the closure is called with)"
	}
	n := ruleEscapable(c, rule, []*ssa.Function{rd, wr}, nil, own)
	c.floor(rule, "blocking primitives in the server stream's reader/writer closures", n, 2)
	var ssf []*ssa.Function
	for _, f := range p.Funcs {
		if strings.HasPrefix(p.fnKey(f), "server.serverStream.") {
			ssf = append(ssf, f)
		}
	}
	m := ruleEscapable(c, rule, ssf, nil, func(op *BlockOp, ctx ssa.Value) (bool, string) {
		return p.lpath(ctx) == "p:ss.ctx", "context handed to the transport: " + p.lpath(ctx) + " (required: the stream's own context)"
	})
	c.floor(rule, "transport operations of serverStream", m, 4)
}

// ================= C08 =================

type unitTable map[byte]int64

// extractUnitTable walks the unit function: `suffix == 'X'` branches returning constants.
func (p *Prog) extractUnitTable(f *ssa.Function) (unitTable, int64, bool) {
	tbl := unitTable{}
	def := int64(-1)
	ok := true
	for _, b := range f.Blocks {
		if len(b.Instrs) == 0 {
			continue
		}
		ifi, isIf := b.Instrs[len(b.Instrs)-1].(*ssa.If)
		if !isIf {
			continue
		}
		bo, isB := ifi.Cond.(*ssa.BinOp)
		if !isB || bo.Op != token.EQL {
			ok = false
			continue
		}
		k, isC := constInt(bo.Y)
		if !isC {
			k, isC = constInt(bo.X)
		}
		if !isC {
			ok = false
			continue
		}
		tb := b.Succs[0]
		if r, isR := tb.Instrs[len(tb.Instrs)-1].(*ssa.Return); isR && len(r.Results) == 1 {
			if d, isD := constInt(r.Results[0]); isD {
				tbl[byte(k)] = d
				continue
			}
		}
		ok = false
	}
	// default: the return reached when all comparisons fail
	for _, b := range f.Blocks {
		if r, isR := b.Instrs[len(b.Instrs)-1].(*ssa.Return); isR && len(r.Results) == 1 {
			if d, isD := constInt(r.Results[0]); isD {
				isCase := false
				for _, pr := range b.Preds {
					if ifi, isIf := pr.Instrs[len(pr.Instrs)-1].(*ssa.If); isIf && pr.Succs[0] == b {
						_ = ifi
						isCase = true
					}
				}
				if !isCase {
					def = d
				}
			}
		}
	}
	return tbl, def, ok
}

// timeoutEmitSite: one `fmt.Sprintf("%d<u>", value)` of the client's timeout encoder with the divisor its value was
// obtained by.
type timeoutEmitSite struct {
	call      *ssa.Call
	format    string
	divisor   int64
	hasMin1   bool
	clampOnly bool   // the value is only ever the saturation constant
	other     string // an origin of the value that is neither the quotient nor a clamp constant
}

func (p *Prog) timeoutEncoderFns() []*ssa.Function {
	fns := []*ssa.Function{p.MustFn("goat.headersFromContext")}
	if f := p.Fn("goat.encodeGrpcTimeout"); f != nil && f.Blocks != nil {
		fns = append(fns, f)
	}
	return fns
}

func (p *Prog) timeoutEmitSites() []timeoutEmitSite {
	e := p.Origins()
	var out []timeoutEmitSite
	for _, f := range p.timeoutEncoderFns() {
		for _, ci := range p.callsTo(f, "fmt.Sprintf", false) {
			cl := ci.(*ssa.Call)
			st := timeoutEmitSite{call: cl, divisor: -1}
			st.format, _ = constString(cl.Call.Args[0])
			for _, t := range e.Of(cl.Call.Args[1]) {
				if t.Op != "list" || len(t.Args) != 1 {
					st.other = t.String()
					continue
				}
				var alts []*Term
				if t.Args[0].Op == "phi" {
					alts = t.Args[0].Args
				} else {
					alts = []*Term{t.Args[0]}
				}
				for _, a := range alts {
					for a.Op == "conv" && len(a.Args) == 1 {
						a = a.Args[0]
					}
					env := map[string]string{}
					// d.Milliseconds() / Microseconds() / Nanoseconds() are the integer quotients by 1e6 / 1e3 / 1 ns
					if a.Op == "call" && len(a.Args) == 1 {
						if dv, ok := map[string]string{"(time.Duration).Milliseconds": "1000000", "(time.Duration).Microseconds": "1000", "(time.Duration).Nanoseconds": "1"}[a.Name]; ok {
							a = &Term{Op: "binop", Name: "/", Args: []*Term{a.Args[0], {Op: "const", Name: dv}}}
						}
					}
					switch {
					case Match(a, "binop(/,$T,const($D))", env) || a.Op == "binop" && a.Name == "/" && len(a.Args) == 2 && a.Args[1].Op == "const":
						var d int64
						fmt.Sscan(a.Args[1].Name, &d)
						// the dividend is the time remaining until the caller's deadline, measured now
						if !a.Args[0].Has(func(x *Term) bool {
							return x.Op == "call" && x.Name == "time.Until" && len(x.Args) == 1 && x.Args[0].Has(func(y *Term) bool { return y.Op == "call" && strings.HasSuffix(y.Name, "Context).Deadline#0") })
						}) {
							st.other = "the value divided is " + a.Args[0].String() + ", not time.Until(ctx.Deadline())"
						}
						if st.divisor >= 0 && st.divisor != d {
							st.other = "two different divisors"
						}
						st.divisor = d
					case a.Op == "const" && a.Name == "1":
						st.hasMin1 = true
					case a.Op == "const" && a.Name == "99999999":
						// saturation clamp of the coarsest unit
						if st.divisor < 0 {
							st.clampOnly = true
						}
					default:
						st.other = a.String()
					}
				}
			}
			if st.divisor >= 0 {
				st.clampOnly = false
			}
			out = append(out, st)
		}
	}
	return out
}

func ruleTimeoutTables(c *Ctx, r1, r2 string) {
	p := c.p
	e := p.Origins()
	hfc := p.MustFn("goat.headersFromContext")
	// client side
	var K string
	allInstrs(hfc, func(i ssa.Instruction) {
		a, ok := i.(*ssa.Alloc)
		if !ok || typeKey(a.Type()) != "pb.KeyValue" {
			return
		}
		for _, s := range p.allocFieldStores(a, "Key") {
			K, _ = constString(s.Val)
		}
	})
	sites := p.timeoutEmitSites()
	// server side
	cfh := p.MustFn("goat.contextFromHeaders")
	var k string
	lower := false
	allInstrs(cfh, func(i ssa.Instruction) {
		if bo, ok := i.(*ssa.BinOp); ok && bo.Op == token.EQL {
			if s, isC := constString(bo.Y); isC {
				k = s
				lower = e.Of(bo.X).ContainsMatch("call(strings.ToLower,field(Key,_))")
			}
		}
	})
	pgt := p.MustFn("goat.parseGrpcTimeout")
	// the unit table lives in parseGrpcTimeout, in a closure of it, or in a helper it calls: take the candidate
	// that yields the largest table
	unitFn := pgt
	var tbl unitTable
	var def int64 = -1
	okT := false
	cands := append([]*ssa.Function{pgt}, p.Anons(pgt)...)
	for g := range p.reachableFns(pgt) {
		cands = append(cands, g)
	}
	for _, cand := range cands {
		t2, d2, ok2 := p.extractUnitTable(cand)
		if len(t2) > len(tbl) {
			unitFn, tbl, def, okT = cand, t2, d2, ok2
		}
	}
	var emitted []string
	for _, st := range sites {
		emitted = append(emitted, fmt.Sprintf("%q÷%d", st.format, st.divisor))
	}
	c.inv("timeout_tables", map[string]any{"client_key": K, "client_emits": emitted, "server_key": k, "server_units": fmt.Sprint(tbl), "server_default": def})
	c.check(r1, "key-agreement", K != "" && strings.ToLower(K) == k && lower, fmt.Sprintf("client emits key %q; server matches ToLower(key) == %q (lower-cased: %v)", K, k, lower))
	for _, st := range sites {
		u := byte(0)
		if strings.HasPrefix(st.format, "%d") && len(st.format) == 3 {
			u = st.format[2]
		}
		if st.clampOnly {
			c.check(r1, "unit-agreement:"+st.format+":clamp", u != 0 && tbl[u] != 0 && st.other == "", fmt.Sprintf("client formats the saturation constant as %q; the server knows unit %q", st.format, string(u)), p.ipos(st.call))
			continue
		}
		c.check(r1, "unit-agreement:"+st.format, u != 0 && tbl[u] != 0 && tbl[u] == st.divisor && st.other == "", fmt.Sprintf("client formats %q after dividing by %d ns; server reads unit %q as %d ns %s", st.format, st.divisor, string(u), tbl[u], st.other), p.ipos(st.call))
	}
	c.floor(r1, "timeout emission sites", len(sites), 1)
	want := unitTable{'H': 3600e9, 'M': 60e9, 'S': 1e9, 'm': 1e6, 'u': 1e3, 'n': 1}
	same := okT && len(tbl) == len(want)
	for kk, v := range want {
		if tbl[kk] != v {
			same = false
		}
	}
	c.check(r2, "unit-table", same, fmt.Sprintf("server unit table %v (well-formed: %v); gRPC wire table {H:3600e9 M:60e9 S:1e9 m:1e6 u:1e3 n:1}", tbl, okT), p.pos(unitFn.Pos()))
	c.check(r2, "unit-default-rejects", def == 0, fmt.Sprintf("unknown unit yields %d, which the parser must treat as reject", def), p.pos(unitFn.Pos()))
	// unknown unit rejected
	rej := false
	for _, r := range returnsOf(pgt) {
		if len(r.Results) == 2 {
			if kf, ok := retVals(r)[1].(*ssa.Const); ok && kf.Value.ExactString() == "false" {
				for a := range p.Facts(r) {
					if strings.HasPrefix(a, "eq(const:0,") {
						rej = true
					}
				}
			}
		}
	}
	c.check(r2, "unit-zero-rejected", rej, "parseGrpcTimeout returns (0,false) under fact unit == 0", p.pos(pgt.Pos()))
}

func ruleDeadlineIffDeadline(c *Ctx, rule string) {
	p := c.p
	hfc := p.MustFn("goat.headersFromContext")
	n := 0
	allInstrs(hfc, func(i ssa.Instruction) {
		a, ok := i.(*ssa.Alloc)
		if !ok || typeKey(a.Type()) != "pb.KeyValue" {
			return
		}
		n++
		fs := p.Facts(a)
		okD := false
		for _, ci := range p.callsTo(hfc, "Context).Deadline", false) {
			if fs.True(p.lpath(ci.(*ssa.Call)) + "#1") {
				okD = true
			}
		}
		c.check(rule, "headersFromContext:timeout-only-with-deadline", okD, "the timeout header is appended only under ok of ctx.Deadline(): "+fs.String(), p.ipos(a))
	})
	c.floor(rule, "timeout header literal", n, 1)
	// converse: whenever the caller has a deadline (ok), the header is emitted — an already expired deadline too
	// (it is conveyed as the minimum value, not dropped, or the handler runs without any deadline)
	for _, ci := range p.callsTo(hfc, "Context).Deadline", false) {
		okPath := p.lpath(ci.(*ssa.Call)) + "#1"
		bad := p.mustPassUnless(ci.(ssa.Instruction), func(i ssa.Instruction) bool {
			a, ok := i.(*ssa.Alloc)
			return ok && typeKey(a.Type()) == "pb.KeyValue"
		}, p.edgeImplies(hfc, atom("false", okPath)))
		where := ""
		if bad != nil {
			where = p.ipos(bad)
		}
		c.check(rule, "headersFromContext:deadline⇒timeout-header", bad == nil, "every path on which ctx.Deadline() reported a deadline appends the timeout header (exit reached without it: "+where+")", p.ipos(ci.(ssa.Instruction)))
	}
	cfh := p.MustFn("goat.contextFromHeaders")
	wts := p.callsTo(cfh, "context.WithTimeout", false)
	for _, wt := range wts {
		fs := p.Facts(wt.(ssa.Instruction))
		key, parsed := false, false
		for a := range fs {
			if strings.HasPrefix(a, "eq(const:\"grpc-timeout\"") {
				key = true
			}
			if strings.HasPrefix(a, "true(v:") && strings.HasSuffix(a, "#1)") {
				parsed = true
			}
		}
		dur := wt.Common().Args[1]
		okDur := false
		if ex, ok := dur.(*ssa.Extract); ok && ex.Index == 0 {
			if cl, ok := ex.Tuple.(*ssa.Call); ok && cl.Call.StaticCallee() != nil && p.fnKey(cl.Call.StaticCallee()) == "goat.parseGrpcTimeout" {
				okDur = true
			}
		}
		c.check(rule, "contextFromHeaders:WithTimeout-guard", key && parsed && okDur, "a deadline is set only when the timeout key matched and its value parsed, with the parsed duration: "+fs.String(), p.ipos(wt.(ssa.Instruction)))
	}
	c.floor(rule, "WithTimeout sites in contextFromHeaders", len(wts), 1)
	// otherwise a cancel-only context
	okCancel := false
	for _, r := range returnsOf(cfh) {
		v := retVals(r)
		if len(v) == 3 && isNilConst(v[2]) {
			for _, t := range p.Origins().Of(v[0]) {
				if Match(t, "call(context.WithCancel#0,...)", nil) {
					okCancel = true
				}
			}
		}
	}
	c.check(rule, "contextFromHeaders:no-deadline-otherwise", okCancel, "without a usable timeout header the handler context is a cancel-only child (no deadline)", p.pos(cfh.Pos()))
	// the handler's context descends from contextFromHeaders at both handler sites
	pu := p.MustFn("goat.handler.processUnaryRpc")
	for _, op := range p.Blocks().ops[pu] {
		if op.Kind == "callback:grpc.MethodDesc.Handler" {
			cl := op.Instr.(*ssa.Call)
			an := p.ancestryOfValue(cl.Call.Args[1])
			c.check(rule, "processUnaryRpc:handler-context", anyHasPrefix(an.Ctors, "goat.contextFromHeaders("), fmt.Sprintf("unary handler context: roots %v via %v", an.RootList(), an.CtorList()), p.ipos(cl))
		}
	}
}

func ruleTimeoutArithmetic(c *Ctx, r4, r5, r6 string) {
	p := c.p
	e := p.Origins()
	// C08.4 floor and minimum
	for _, st := range p.timeoutEmitSites() {
		ok := (st.divisor > 0 || st.clampOnly) && st.other == ""
		c.check(r4, "emitted-integer:"+st.format, ok, fmt.Sprintf("emitted value is the integer quotient of the remaining time by %d ns, or a clamp constant %s", st.divisor, st.other), p.ipos(st.call))
	}
	// the constant 1 only under fact ≤ 0
	for _, encf := range p.timeoutEncoderFns() {
	allInstrs(encf, func(i ssa.Instruction) {
		if ph, ok := i.(*ssa.Phi); ok && typeKey(ph.Type()) == "int64" {
			for ei, ed := range ph.Edges {
				if k, isC := constInt(ed); isC && k == 1 {
					pred := ph.Block().Preds[ei]
					fs := p.Facts(pred.Instrs[len(pred.Instrs)-1])
					okMin := false
					for a := range fs {
						if strings.HasPrefix(a, "cmp<=(") && strings.HasSuffix(a, ",const:0)") {
							okMin = true
						}
					}
					c.check(r4, "headersFromContext:minimum", k == 1 && okMin, fmt.Sprintf("constant %d is used only under fact value ≤ 0: %s", k, fs), p.ipos(i))
				}
			}
		}
	})
	}
	// C08.5 overflow guard
	pgt := p.MustFn("goat.parseGrpcTimeout")
	n := 0
	allInstrs(pgt, func(i ssa.Instruction) {
		bo, ok := i.(*ssa.BinOp)
		if !ok || bo.Op != token.MUL {
			return
		}
		if !e.Of(bo).ContainsMatch("call(strconv.ParseInt#0,...)") {
			return
		}
		n++
		fs := p.Facts(i)
		bounded := false
		// the bound must be on the parsed value itself and precede the multiplication: a digit-count bound does
		// not keep 99999999H inside 64 bits, and a sign test after the product misses wraps past 2^64
		valPath := ""
		for _, ci := range p.callsTo(pgt, "strconv.ParseInt", false) {
			valPath = p.lpath(ci.(*ssa.Call)) + "#0"
		}
		for a := range fs {
			if strings.HasPrefix(a, "cmp") && valPath != "" && strings.Contains(a, valPath) {
				bounded = true
			}
		}
		c.check(r5, "parseGrpcTimeout:product-bounded", bounded, "Duration(val)*unit with val parsed from the peer's string is not dominated by any comparison bounding val or the digit count: 99999999H (legal in gRPC) wraps 64-bit nanoseconds to a negative duration; facts: "+fs.String(), p.ipos(i))
	})
	c.floor(r5, "duration products in parseGrpcTimeout", n, 1)
	// C08.6 rejection paths
	reasons := map[string]bool{}
	for _, r := range returnsOf(pgt) {
		v := retVals(r)
		if len(v) != 2 {
			continue
		}
		if kf, ok := v[1].(*ssa.Const); ok && kf.Value.ExactString() == "false" {
			fs := p.Facts(r)
			for a := range fs {
				switch {
				case a == atom("eq", "const:\"\"", "p:timeout"):
					reasons["empty"] = true
				case strings.HasPrefix(a, "nonnil(v:") && strings.HasSuffix(a, "#1)"):
					reasons["parse-error"] = true
				case strings.HasPrefix(a, "eq(const:0,"):
					reasons["unknown-unit"] = true
				}
			}
		}
	}
	for _, w := range []string{"empty", "parse-error", "unknown-unit"} {
		c.check(r6, "parseGrpcTimeout:rejects-"+w, reasons[w], "(0,false) is returned under the "+w+" condition")
	}
	// grammar: 1–8 unsigned digits — ParseInt accepts signs and 19 digits; a fact must exclude them before the call
	for _, ci := range p.callsTo(pgt, "strconv.ParseInt", false) {
		fs := p.Facts(ci.(ssa.Instruction))
		guarded := false
		for a := range fs {
			if strings.HasPrefix(a, "cmp") && strings.Contains(a, "len(p:timeout)") {
				guarded = true
			}
		}
		c.check(r6, "parseGrpcTimeout:digits-only", guarded, "strconv.ParseInt accepts '+5', '-5' and 19 digits; nothing before the call bounds the length or excludes a sign, so '-5S' is read as −5 s instead of being ignored; facts: "+fs.String(), p.ipos(ci.(ssa.Instruction)))
	}
}

var _ = types.RecvOnly

// ruleTimeoutWithinGrammar (C08.7): every value the client's encoder formats is known ≤ 99999999 (8 digits) at the
// emission site — the reader ignores anything longer, so an unbounded millisecond count silently loses the deadline.
func ruleTimeoutWithinGrammar(c *Ctx, rule string) {
	p := c.p
	const maxLit = "const:99999999"
	bounded := func(v ssa.Value, at ssa.Instruction, fs AtomSet) bool {
		lp := p.lpath(v)
		for a := range fs {
			if a == atom("cmp<=", lp, maxLit) {
				return true
			}
		}
		return false
	}
	sites := p.timeoutEmitSites()
	for _, st := range sites {
		// the formatted value: element 0 of the variadic slice
		var val ssa.Value
		if sl, ok := st.call.Call.Args[1].(*ssa.Slice); ok {
			if al, ok := sl.X.(*ssa.Alloc); ok {
				for _, r := range *al.Referrers() {
					if ia, ok := r.(*ssa.IndexAddr); ok {
						for _, u := range *ia.Referrers() {
							if s, ok := u.(*ssa.Store); ok {
								val = stripConv(s.Val)
							}
						}
					}
				}
			}
		}
		ok := false
		why := "formatted value not identified"
		if val != nil {
			fs := p.Facts(st.call)
			why = "facts at the emission: " + fs.String()
			if k, isC := constInt(stripConvert(val)); isC && k <= 99999999 {
				ok = true
			} else if bounded(val, st.call, fs) {
				ok = true
			} else if ph, isPhi := val.(*ssa.Phi); isPhi {
				ok = true
				for ei, ed := range ph.Edges {
					if k, isC := constInt(ed); isC {
						if k > 99999999 {
							ok = false
						}
						continue
					}
					pred := ph.Block().Preds[ei]
					efs := p.Facts(pred.Instrs[len(pred.Instrs)-1]).clone()
					if ifi, isIf := pred.Instrs[len(pred.Instrs)-1].(*ssa.If); isIf {
						for _, a := range p.factsOf(pred.Parent()).atomsOf(ifi.Cond, pred.Succs[0] == ph.Block(), map[*ssa.BasicBlock]AtomSet{}, 0) {
							efs[a] = true
						}
					}
					if !bounded(ed, st.call, efs) {
						ok = false
						why = "an incoming value of the formatted variable is not bounded by 99999999: " + efs.String()
					}
				}
			}
		}
		c.check(rule, "emitted-value-fits-8-digits:"+st.format+clampSuffix(st), ok, "the value formatted as "+st.format+" is at most 99999999 (the wire grammar's 8 digits; longer values are ignored by the reader): "+why, p.ipos(st.call))
	}
	c.floor(rule, "timeout emission sites", len(sites), 1)
}

func clampSuffix(st timeoutEmitSite) string {
	if st.clampOnly {
		return ":clamp"
	}
	return ""
}

// selectArm: the block executed when state k of the select was chosen.
func selectArm(sel *ssa.Select, k int) *ssa.BasicBlock {
	idx := extractOf2(sel, 0)
	if idx == nil {
		return nil
	}
	if refs := idx.Referrers(); refs != nil {
		for _, r := range *refs {
			b, ok := r.(*ssa.BinOp)
			if !ok || b.Op != token.EQL {
				continue
			}
			kc, isC := constInt(b.Y)
			if !isC || int(kc) != k {
				continue
			}
			if br := b.Referrers(); br != nil {
				for _, u := range *br {
					if ifi, ok := u.(*ssa.If); ok {
						return ifi.Block().Succs[0]
					}
				}
			}
		}
	}
	return nil
}

func extractOf2(v ssa.Value, k int) *ssa.Extract {
	if refs := v.Referrers(); refs != nil {
		for _, r := range *refs {
			if ex, ok := r.(*ssa.Extract); ok && ex.Index == k {
				return ex
			}
		}
	}
	return nil
}

// ruleDoneArmYieldsCtxErr: on the client side and in the transports, an error returned from the arm of a select
// that fired on some ctx.Done() is (derived from) that context's Err(): toStatusError recognises exactly
// context.Canceled / DeadlineExceeded, so handing back anything else there (context.Cause, a fresh error) turns a
// cancellation into status Unknown. The server side, which reports causes on purpose, is out of scope of this rule.
func ruleDoneArmYieldsCtxErr(c *Ctx, rule string) {
	p := c.p
	e := p.Origins()
	n := 0
	errT := types.Universe.Lookup("error").Type()
	for _, f := range p.Funcs {
		root := p.fnKey(rootFn(f))
		if strings.HasPrefix(root, "goat.handler.") || strings.HasPrefix(root, "server.") || strings.HasPrefix(root, "goat.Server.") || strings.HasPrefix(root, "goat.Proxy.") || strings.HasPrefix(root, "goat.proxyClient.") {
			continue
		}
		allInstrs(f, func(i ssa.Instruction) {
			sel, ok := i.(*ssa.Select)
			if !ok {
				return
			}
			for k, stt := range sel.States {
				cl, ok := stt.Chan.(*ssa.Call)
				if !ok || !cl.Call.IsInvoke() || cl.Call.Method.Name() != "Done" {
					continue
				}
				arm := selectArm(sel, k)
				if arm == nil {
					continue
				}
				for _, r := range returnsOf(f) {
					if !arm.Dominates(r.Block()) {
						continue
					}
					vs := retVals(r)
					if len(vs) == 0 || !types.Identical(vs[len(vs)-1].Type(), errT) {
						continue
					}
					ev := vs[len(vs)-1]
					// a value read back from a local variable: take the assignment made on this arm
					if ld, ok := ev.(*ssa.UnOp); ok {
						if cell, ok := ld.X.(*ssa.Alloc); ok {
							var last *ssa.Store
							for _, st := range p.cellStores(cell) {
								if st.Parent() == f && arm.Dominates(st.Block()) && instrDominates(st, r) {
									last = st
								}
							}
							if last == nil {
								continue // the variable was set before the wait: not this arm's verdict
							}
							ev = last.Val
						}
					}
					src := ev
					if ex, ok := src.(*ssa.Extract); ok {
						src = ex.Tuple
					}
					if cl, ok := src.(*ssa.Call); ok && !cl.Call.IsInvoke() && cl.Call.StaticCallee() != nil && p.inScope[cl.Call.StaticCallee()] && !strings.HasSuffix(p.fnKey(cl.Call.StaticCallee()), "toStatusError") {
						continue // the stream's recorded outcome (readErrorIfDone etc.), decided elsewhere
					}
					n++
					okAll := true
					why := ""
					for _, t := range e.Of(ev) {
						if !t.Has(func(x *Term) bool { return (x.Op == "call" || x.Op == "dyncall") && strings.HasSuffix(x.Name, "Context).Err") }) {
							okAll = false
							why = t.short()
						}
					}
					c.check(rule, p.cname(f)+":done-arm-returns-ctx.Err", okAll, "the error returned when the context fired derives from ctx.Err() (toStatusError maps only Canceled / DeadlineExceeded) "+why, p.ipos(r))
				}
			}
		})
	}
	c.floor(rule, "error returns on a ctx.Done() arm (client side, transports)", n, 5)
}
