package main

import (
	"fmt"
	"go/token"
	"go/types"
	"strings"

	"golang.org/x/tools/go/ssa"
)

// serverPeerFns: functions driven by envelopes a peer sends to a server.
func (p *Prog) inFns(prefixes ...string) func(*ssa.Function) bool {
	return func(f *ssa.Function) bool {
		k := p.fnKey(rootFn(f))
		for _, pre := range prefixes {
			if strings.HasPrefix(k, pre) {
				return true
			}
		}
		return false
	}
}

// reachFns: like inFns, plus every in-scope function reachable (calls, defers, go statements) from those functions —
// so that a package-level helper called from the family is covered too.
func (p *Prog) reachFns(prefixes ...string) func(*ssa.Function) bool {
	base := p.inFns(prefixes...)
	set := map[*ssa.Function]bool{}
	for _, f := range p.Funcs {
		if base(f) {
			for g := range p.reachableFns(f) {
				set[g] = true
			}
			set[f] = true
		}
	}
	// go targets
	for _, gs := range p.GoSites() {
		if set[gs.In] {
			for _, t := range gs.Targets {
				for g := range p.reachableFns(t) {
					set[g] = true
				}
			}
		}
	}
	return func(f *ssa.Function) bool { return set[f] || set[rootFn(f)] }
}

// dispatch sites of serve
func (p *Prog) dispatchSites() []ssa.Instruction {
	serve := p.serverReadLoopFn()
	var out []ssa.Instruction
	allInstrs(serve, func(i ssa.Instruction) {
		if sel, ok := i.(*ssa.Select); ok {
			for _, st := range sel.States {
				if st.Dir == types.SendOnly && p.chanDesc(st.Chan) == "unaryRpcChan" {
					out = append(out, i)
				}
			}
		}
		if s, ok := i.(*ssa.Send); ok && p.chanDesc(s.Chan) == "unaryRpcChan" {
			out = append(out, i)
		}
		if cl, ok := i.(*ssa.Call); ok {
			if sc := cl.Call.StaticCallee(); sc != nil && p.fnKey(sc) == "goat.handler.processStreamingRpc" {
				out = append(out, i)
			}
		}
	})
	return out
}

// ---- C12.1 handler gate ----
func ruleHandlerGate(c *Ctx, rule string) {
	p := c.p
	serve := p.serverReadLoopFn()
	_, rpc := p.readResult(serve)
	rp := p.lpath(rpc)
	sites := p.dispatchSites()
	for _, s := range sites {
		fs := p.Facts(s)
		name := "serve:dispatch:" + dispatchName(p, s)
		c.check(rule, name+":header", fs.NonNil(rp+".Header"), "dispatch only with a header present", p.ipos(s))
		parsed := false
		for _, ci := range p.callsTo(serve, "goat.parseRawMethod", false) {
			if fs.IsNil(p.lpath(ci.(*ssa.Call)) + "#2") {
				parsed = true
			}
		}
		c.check(rule, name+":method-parsed", parsed, "dispatch only when the method string parsed", p.ipos(s))
		c.check(rule, name+":destination", fs.Eq("p:h.srv.id", rp+".Header.Destination"), "dispatch only when the envelope's destination equals the server's name: "+fs.String(), p.ipos(s))
		svc, meth := false, false
		for k := range fs {
			if strings.HasPrefix(k, "true(has:p:h.srv.services[") {
				svc = true
			}
			if strings.HasPrefix(k, "true(has:") && (strings.Contains(k, ".methods[") || strings.Contains(k, ".streams[")) {
				meth = true
			}
		}
		c.check(rule, name+":service-known", svc, "dispatch only for a registered service", p.ipos(s))
		c.check(rule, name+":method-known", meth, "dispatch only for a registered method of the matching kind", p.ipos(s))
	}
	c.floor(rule, "dispatch sites", len(sites), 2)
	ruleUndecodableMetadataReported(c, rule)
}

// ruleUndecodableMetadataReported: contextFromHeaders hands the metadata decoding error to its callers on every
// path on which decoding failed (they refuse the request on it: C01.6 / C06.7). A return that may be reached with
// the decode error set but yields a nil error makes the server run a handler for a malformed request.
func ruleUndecodableMetadataReported(c *Ctx, rule string) {
	p := c.p
	cfh := p.MustFn("goat.contextFromHeaders")
	n := 0
	for _, ci := range p.callsTo(cfh, "int.ToMetadata", false) {
		errV := extractOf(ci.(*ssa.Call), 1)
		if errV == nil {
			c.check(rule, "contextFromHeaders:decode-error-used", false, "the error of ToMetadata is discarded", p.ipos(ci.(ssa.Instruction)))
			continue
		}
		errPath := p.lpath(errV)
		for _, r := range returnsOf(cfh) {
			if !instrDominates(ci.(ssa.Instruction), r) {
				continue
			}
			fs := p.Facts(r)
			if fs.IsNil(errPath) {
				continue // decoding succeeded on every path to this return
			}
			n++
			vs := retVals(r)
			res := vs[len(vs)-1]
			ok := p.sameValue(res, errV) && fs.NonNil(errPath)
			why := "returns the decode error under fact err != nil"
			if !ok {
				ok, why = p.provablyNonNilErr(res, r)
			}
			c.check(rule, "contextFromHeaders:decode-failure⇒error", ok, "a return that can be reached after ToMetadata failed yields a non-nil error ("+why+")", p.ipos(r))
		}
	}
	c.floor(rule, "returns of contextFromHeaders reachable with a decode error", n, 1)
}

// ---- entry facts by contract ----

// entryHeaderNonNil: at every call site of f (transitively through parameters, `go` statements and channel-carried
// argument structs) the envelope argument's Header is known non-nil.
func (p *Prog) entryHeaderNonNil(f *ssa.Function, idx int, depth int) (bool, string) {
	if depth > 4 {
		return false, "depth bound"
	}
	sites := p.Callers(f)
	if len(sites) == 0 {
		return false, "no call site of " + p.fnKey(f) + " found"
	}
	for _, cs := range sites {
		if idx >= len(cs.args) {
			return false, "argument missing at " + p.ipos(cs.instr)
		}
		arg := cs.args[idx]
		fs := p.Facts(cs.instr)
		if fs.NonNil(p.lpath(arg) + ".Header") {
			continue
		}
		switch a := arg.(type) {
		case *ssa.Parameter:
			j := -1
			for k, pr := range cs.caller.Params {
				if pr == a {
					j = k
				}
			}
			if ok, why := p.entryHeaderNonNil(cs.caller, j, depth+1); !ok {
				return false, why
			}
			continue
		default:
			// args.rpc where args was received from a channel: look at every send site of that channel class
			ch, fname := p.recvStructField(arg)
			if ch == nil {
				return false, "argument " + p.lpath(arg) + " at " + p.ipos(cs.instr) + " has no established header fact (" + fs.String() + ")"
			}
			cls := p.chanClass(ch)
			nsend := 0
			for _, u := range p.chanUses() {
				if u.kind != "send" || !classesIntersect(cls, p.chanClass(u.ch)) {
					continue
				}
				nsend++
				sv := sendOf(u)
				// sv is a load of a local struct literal; find the value stored in field a.Field
				ld, ok := sv.(*ssa.UnOp)
				if !ok {
					return false, "sent value is not a local literal at " + p.ipos(u.instr)
				}
				al, ok := ld.X.(*ssa.Alloc)
				if !ok {
					return false, "sent value is not a local literal at " + p.ipos(u.instr)
				}
				okF := false
				for _, s := range p.allocFieldStores(al, fname) {
					if p.Facts(u.instr).NonNil(p.lpath(s.Val) + ".Header") {
						okF = true
					}
				}
				if !okF {
					return false, "envelope sent at " + p.ipos(u.instr) + " has no established header fact"
				}
			}
			if nsend == 0 {
				return false, "no send site for the channel feeding " + p.ipos(cs.instr)
			}
			continue
		}
	}
	return true, fmt.Sprintf("nonnil(rpc.Header) holds at all %d call sites", len(sites))
}

// recvStructField: arg is field F of a struct value received from a channel (directly, or through the local
// variable the receive stores into); returns the channel and F.
func (p *Prog) recvStructField(arg ssa.Value) (ssa.Value, string) {
	var base ssa.Value
	fname := ""
	switch a := arg.(type) {
	case *ssa.Field:
		base, fname = a.X, fieldName(a)
	case *ssa.UnOp:
		if fa, ok := a.X.(*ssa.FieldAddr); ok && a.Op == token.MUL {
			fname = fieldName(fa)
			if al, ok := fa.X.(*ssa.Alloc); ok {
				for _, s := range p.cellStores(al) {
					base = s.Val
				}
			}
		}
	}
	if base == nil {
		return nil, ""
	}
	switch src := base.(type) {
	case *ssa.Extract:
		if sel, ok := src.Tuple.(*ssa.Select); ok {
			k := src.Index - 2
			n := 0
			for _, st := range sel.States {
				if st.Dir == types.RecvOnly {
					if n == k {
						return st.Chan, fname
					}
					n++
				}
			}
		}
		if u, ok := src.Tuple.(*ssa.UnOp); ok && u.Op == token.ARROW {
			return u.X, fname
		}
	case *ssa.UnOp:
		if src.Op == token.ARROW {
			return src.X, fname
		}
	}
	return nil, ""
}

func rpcParamIndex(f *ssa.Function) int {
	for i, pr := range f.Params {
		if typeKey(pr.Type()) == "pb.Rpc" {
			return i
		}
	}
	return -1
}

// ruleServerNilChecks: C12.3
func ruleServerNilChecks(c *Ctx, rule string) {
	p := c.p
	entry := map[string][]string{}
	for _, fk := range []string{"goat.handler.processUnaryRpc", "goat.handler.processStreamingRpc", "goat.handler.runStream", "goat.handler.resetStream"} {
		f := p.MustFn(fk)
		ok, why := p.entryHeaderNonNil(f, rpcParamIndex(f), 0)
		c.check(rule, fk+":entry-fact", ok, "contract nonnil(rpc.Header) on entry: "+why, p.pos(f.Pos()))
		if ok {
			entry[fk] = []string{"Header"}
		}
	}
	n := ruleOptionalSubMsgNilChecked(c, rule, p.reachFns("goat.handler.", "goat.Server.", "server.", "goat.contextFromHeaders"), entry)
	c.floor(rule, "field accesses through optional sub-messages (server side)", n, 8)
}

// ---- C12.5 serving continues ----
func ruleServingContinues(c *Ctx, rule string) {
	p := c.p
	serve := p.serverReadLoopFn()
	rd, _ := p.readResult(serve)
	readErr := extractOf(rd, 1)
	var psr *ssa.Call
	for _, ci := range p.callsTo(serve, "goat.handler.processStreamingRpc", false) {
		psr, _ = ci.(*ssa.Call)
	}
	n := 0
	for _, r := range returnsOf(serve) {
		n++
		fs := p.Facts(r)
		why := ""
		switch {
		case readErr != nil && fs.NonNil(p.lpath(readErr)):
			why = "read error"
		case psr != nil && fs.NonNil(p.lpath(psr)):
			why = "processStreamingRpc error"
		default:
			// dominated by a select whose Done case is the way here
			allInstrs(serve, func(i ssa.Instruction) {
				if sel, ok := i.(*ssa.Select); ok && instrDominates(i, r) {
					idx := extractOf(sel, 0)
					if idx != nil {
						for k := range fs {
							if strings.Contains(k, p.lpath(idx)) {
								why = "connection context done"
							}
						}
					}
				}
			})
		}
		c.check(rule, "serve:return:"+strings.ReplaceAll(why, " ", "-"), why != "", "serve returns only on read error, processStreamingRpc error or a done connection context; this return is reached under "+fs.String(), p.ipos(r))
	}
	c.floor(rule, "returns of serve", n, 3)
	// processStreamingRpc returns non-nil only from a done context or a failed reset write
	ps := p.MustFn("goat.handler.processStreamingRpc")
	for _, r := range returnsOf(ps) {
		v := retVals(r)[0]
		if isNilConst(v) {
			continue
		}
		o := p.Origins().Of(v)
		ok, why := o.AllMatch("call(*Context).Err,...)", "call(context.Cause,...)", "call(*RpcReadWriter).Write,...)", "const(nil)")
		if cl, isCall := v.(*ssa.Call); isCall && cl.Call.StaticCallee() != nil && p.fnKey(cl.Call.StaticCallee()) == "goat.handler.resetStream" {
			ok, why = true, "result of resetStream"
		}
		c.check(rule, "processStreamingRpc:error-returns", ok, "a non-nil result (which ends the connection) stems only from a done context or a failed write: "+why, p.ipos(r))
	}
	// every rejection in the loop continues: no panic site in serve itself
	for _, ps := range p.panicSites() {
		if ps.instr.Parent() == serve {
			c.check(rule, "serve:no-panic", false, "panic site inside the read loop", p.ipos(ps.instr))
		}
	}
}

// ================= C13 =================

func ruleLatchRelease(c *Ctx, rule string) {
	p := c.p
	ns := p.MustFn("client.NewStream")
	adds := p.callsTo(ns, "sync.WaitGroup).Add", false)
	var goRL *ssa.Go
	for _, g := range p.goStmts(ns) {
		goRL = g
	}
	okAdd := len(adds) == 1 && goRL != nil && instrDominates(adds[0].(ssa.Instruction), goRL) && !inLoop(adds[0].(ssa.Instruction).Block())
	if okAdd {
		d, isC := constInt(adds[0].Common().Args[1])
		okAdd = isC && d == 1
	}
	c.check(rule, "NewStream:latch-armed-once", okAdd, "ready.Add(1) exactly once, before the read loop starts", p.pos(ns.Pos()))
	rl := p.MustFn("client.clientStream.readLoop")
	// onReady: the closure that calls ready.Done
	// the function that releases the latch (a closure of the read loop, or a method it was moved into)
	onReady := p.latchReleaseFn()
	isRelease := func(i ssa.Instruction) bool {
		cl, ok := i.(*ssa.Call)
		if !ok || cl.Call.IsInvoke() {
			return false
		}
		for _, g := range p.calleesOfValue(cl.Call.Value, p.Origins()) {
			if g == onReady {
				return true
			}
		}
		return false
	}
	hdr := func(a string) bool { return strings.HasPrefix(a, "nonnil(") && strings.HasSuffix(a, "cs.header)") }
	bad := p.mustPassUnless(rl.Blocks[0].Instrs[0], isRelease, func(ifi *ssa.If, succ int) bool {
		for _, a := range p.factsOf(rl).atomsOf(ifi.Cond, succ == 0, map[*ssa.BasicBlock]AtomSet{}, 0) {
			if hdr(a) {
				return true // header already known ⇒ latch already released
			}
		}
		return false
	})
	where := ""
	if bad != nil {
		where = p.ipos(bad)
	}
	c.check(rule, "readLoop:latch-released-on-every-exit", bad == nil, "an exit of the stream read loop ("+where+") is reached on a path that never releases the ready latch: Header() blocks for ever", where)
	// onReady releases exactly once: Done is guarded by header == nil and not in a loop
	for _, d := range p.callsTo(onReady, "sync.WaitGroup).Done", false) {
		guarded := false
		for _, ci := range p.controllingConds(d.(ssa.Instruction).Block()) {
			pol := reachFrom(ci.Block().Succs[0])[d.(ssa.Instruction).Block()] && !reachFrom(ci.Block().Succs[1])[d.(ssa.Instruction).Block()]
			for _, a := range p.factsOf(onReady).atomsOf(ci.Cond, pol, map[*ssa.BasicBlock]AtomSet{}, 0) {
				if strings.HasPrefix(a, "isnil(") && strings.HasSuffix(a, "cs.header)") {
					guarded = true
				}
			}
		}
		c.check(rule, "onReady:single-release", guarded && !inLoop(d.(ssa.Instruction).Block()), "ready.Done() runs only while no header has been recorded (a second Done panics)", p.ipos(d.(ssa.Instruction)))
	}
}

func ruleTerminalErrorAssigned(c *Ctx, rule string) {
	p := c.p
	rl := p.MustFn("client.clientStream.readLoop")
	cell := p.terminalErrCell()
	n := 0
	for _, r := range returnsOf(rl) {
		n++
		var doms []*ssa.Store
		for _, s := range p.cellStores(cell) {
			if s.Parent() == rl && instrDominates(s, r) {
				doms = append(doms, s)
			}
		}
		if len(doms) == 0 {
			c.check(rule, "readLoop:exit-without-terminal-error", false, "this exit of the stream read loop assigns no terminal error: the stream is marked done with rErr == nil, RecvMsg then returns nil without data and stats.End reports success", p.ipos(r))
			continue
		}
		last := doms[len(doms)-1]
		okV := false
		why := ""
		if cl, ok := last.Val.(*ssa.Call); ok && cl.Call.StaticCallee() != nil && p.fnKey(cl.Call.StaticCallee()) == "client.toStatusError" {
			okV, why = true, "toStatusError(non-nil error)"
		} else if p.Facts(r).True(p.lpath(stripExtractTuple(last.Val))+"#0") || strings.Contains(p.lpath(last.Val), "#1") {
			okV, why = true, "error of errorIfDone on the done path (io.EOF or status error)"
		} else {
			okV, why = p.provablyNonNilErr(last.Val, r)
		}
		c.check(rule, "readLoop:exit:"+errKind(p, last.Val), okV, "terminal error assigned before this exit: "+why, p.ipos(r))
	}
	c.floor(rule, "exits of the stream read loop", n, 4)
	// the deferred block publishes that variable and marks the stream done
	pub := false
	for _, s := range p.FieldStores(fieldKey{"client.clientStream.protected", "done"}) {
		if k, ok := s.Val.(*ssa.Const); ok && k.Value.ExactString() == "true" {
			pub = true
		}
	}
	c.check(rule, "readLoop.deferred:publishes", pub, "the deferred block stores done = true and rErr")
}

func stripExtractTuple(v ssa.Value) ssa.Value {
	if ex, ok := v.(*ssa.Extract); ok {
		return ex.Tuple
	}
	return v
}

func ruleUnknownIdsDropped(c *Ctx, rule string) {
	p := c.p
	f := p.MustFn("client.RpcMultiplexer.handleResponse")
	n := 0
	for _, op := range p.Blocks().ops[f] {
		n++
		fs := p.Facts(op.Instr)
		ok := false
		for k := range fs {
			if strings.HasPrefix(k, "true(has:p:rm.handlers[") {
				ok = true
			}
		}
		c.check(rule, "handleResponse:"+p.opDesc(op), ok, "channel operations happen only for a registered id; an unknown id returns without touching any queue: "+fs.String(), p.ipos(op.Instr))
	}
	c.floor(rule, "channel operations in handleResponse", n, 1)
}

// terminalErrCell: the local variable of clientStream.readLoop that its deferred block publishes as
// protected.rErr (found through the capture, not by its name).
func (p *Prog) terminalErrCell() *ssa.Alloc {
	rl := p.MustFn("client.clientStream.readLoop")
	var cell *ssa.Alloc
	for _, s := range p.FieldStores(fieldKey{"client.clientStream.protected", "rErr"}) {
		if ld, ok := s.Val.(*ssa.UnOp); ok {
			if fv, ok := ld.X.(*ssa.FreeVar); ok {
				for _, b := range p.freeVarBindings(fv) {
					if al, ok := b.(*ssa.Alloc); ok && al.Parent() == rl {
						cell = al
					}
				}
			}
		}
	}
	if cell == nil {
		panic(UnresolvedError{"terminal-error variable of clientStream.readLoop (published as protected.rErr)"})
	}
	return cell
}

// latchReleaseFn: the function that releases the stream's ready latch (a closure of the read loop, or a method it
// was moved into): the only one under clientStream that calls ready.Done.
func (p *Prog) latchReleaseFn() *ssa.Function {
	var onReady *ssa.Function
	for _, f := range p.Funcs {
		if strings.HasPrefix(p.fnKey(rootFn(f)), "client.clientStream.") && len(p.callsTo(f, "sync.WaitGroup).Done", false)) > 0 {
			if onReady != nil {
				panic(UnresolvedError{"exactly one function releasing the ready latch"})
			}
			onReady = f
		}
	}
	if onReady == nil {
		panic(UnresolvedError{"function releasing the ready latch (calls ready.Done)"})
	}
	return onReady
}
