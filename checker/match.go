package main

// A tiny pattern language over origin terms.
//   op(name,arg,...)   name: exact, or *substr (contains); "" when omitted
//   _                  any term
//   $X                 capture (all captures of the same name must be equal strings)
//   ...                any remaining arguments
// A phi(...) term matches a pattern iff every alternative (except cycle markers) matches.

import (
	"strings"
)

type pat struct {
	any     bool
	capture string
	op      string
	name    string
	args    []*pat
	rest    bool
}

func parsePat(s string) *pat {
	p, rest := parsePat1(strings.TrimSpace(s))
	if strings.TrimSpace(rest) != "" {
		panic("bad pattern, trailing: " + rest + " in " + s)
	}
	return p
}

func parsePat1(s string) (*pat, string) {
	s = strings.TrimLeft(s, " ")
	if strings.HasPrefix(s, "_") {
		return &pat{any: true}, s[1:]
	}
	if strings.HasPrefix(s, "$") {
		i := 1
		for i < len(s) && (s[i] >= 'A' && s[i] <= 'Z' || s[i] >= 'a' && s[i] <= 'z' || s[i] >= '0' && s[i] <= '9') {
			i++
		}
		return &pat{capture: s[1:i]}, s[i:]
	}
	i := 0
	for i < len(s) && s[i] != '(' && s[i] != ',' && s[i] != ')' {
		i++
	}
	p := &pat{op: strings.TrimSpace(s[:i])}
	if i >= len(s) || s[i] != '(' {
		return p, s[i:]
	}
	s = s[i+1:]
	// name: up to ',' or ')' unless it starts a nested pattern (contains '(' before ',' / ')') or is _ / $ / ...
	j := 0
	for j < len(s) && s[j] != ',' && s[j] != '(' {
		if s[j] == ')' && !(j+1 < len(s) && s[j+1] == '.') {
			break
		}
		j++
	}
	first := strings.TrimSpace(s[:j])
	isName := j < len(s) && s[j] != '(' && first != "_" && !strings.HasPrefix(first, "$") && first != "..."
	if isName {
		p.name = first
		s = s[j:]
		if strings.HasPrefix(s, ",") {
			s = s[1:]
		}
	}
	for {
		s = strings.TrimLeft(s, " ")
		if strings.HasPrefix(s, ")") {
			return p, s[1:]
		}
		if strings.HasPrefix(s, "...") {
			p.rest = true
			s = s[3:]
			continue
		}
		var a *pat
		a, s = parsePat1(s)
		p.args = append(p.args, a)
		s = strings.TrimLeft(s, " ")
		if strings.HasPrefix(s, ",") {
			s = s[1:]
		}
		if s == "" {
			panic("bad pattern: unterminated")
		}
	}
}

func nameMatch(pn, n string) bool {
	if pn == "" || pn == "*" {
		return true
	}
	if strings.HasPrefix(pn, "*") {
		return strings.Contains(n, pn[1:])
	}
	return pn == n
}

func (p *pat) match(t *Term, env map[string]string) bool {
	if p.any {
		return true
	}
	if t == nil {
		return false
	}
	if p.capture != "" {
		full := fullString(t)
		if v, ok := env[p.capture]; ok {
			return v == full
		}
		env[p.capture] = full
		return true
	}
	if t.Op == "phi" && p.op != "phi" {
		n := 0
		for _, a := range t.Args {
			if a.Op == "cycle" || a.Op == "more" {
				continue
			}
			n++
			if !p.match(a, env) {
				return false
			}
		}
		return n > 0
	}
	if p.capture != "" {
		full := fullString(t)
		if v, ok := env[p.capture]; ok {
			return v == full
		}
		env[p.capture] = full
		return true
	}
	if p.op != t.Op || !nameMatch(p.name, t.Name) {
		return false
	}
	if len(t.Args) < len(p.args) || (!p.rest && len(t.Args) != len(p.args)) {
		return false
	}
	for i, a := range p.args {
		if !a.match(t.Args[i], env) {
			return false
		}
	}
	return true
}

// fullString renders a term without abbreviation (used for capture equality).
func fullString(t *Term) string {
	if t == nil {
		return "_"
	}
	var sb strings.Builder
	var rec func(x *Term, d int)
	rec = func(x *Term, d int) {
		sb.WriteString(x.Op)
		if x.Name != "" || len(x.Args) > 0 {
			sb.WriteByte('(')
			sb.WriteString(x.Name)
			if d > 40 {
				sb.WriteString("…)")
				return
			}
			for i, a := range x.Args {
				if i > 0 || x.Name != "" {
					sb.WriteByte(',')
				}
				rec(a, d+1)
			}
			sb.WriteByte(')')
		}
	}
	rec(t, 0)
	return sb.String()
}

// Match reports whether t matches the pattern; env receives captures.
func Match(t *Term, pattern string, env map[string]string) bool {
	if env == nil {
		env = map[string]string{}
	}
	return parsePat(pattern).match(t, env)
}

// AllMatch: every member of the set matches one of the patterns (set non-empty).
func (s TermSet) AllMatch(patterns ...string) (bool, string) {
	if len(s) == 0 {
		return false, "empty origin set"
	}
	for _, t := range s.List() {
		ok := false
		for _, p := range patterns {
			if Match(t, p, nil) {
				ok = true
				break
			}
		}
		if !ok {
			return false, "origin " + t.String() + " matches none of " + strings.Join(patterns, " | ")
		}
	}
	return true, s.String()
}

// Contains: some subterm of some member matches.
func (s TermSet) ContainsMatch(pattern string) bool {
	pp := parsePat(pattern)
	for _, t := range s {
		if t.Has(func(x *Term) bool { return pp.match(x, map[string]string{}) }) {
			return true
		}
	}
	return false
}

// EveryContains: every member has a subterm matching the pattern.
func (s TermSet) EveryContains(pattern string) (bool, string) {
	if len(s) == 0 {
		return false, "empty origin set"
	}
	pp := parsePat(pattern)
	for _, t := range s.List() {
		if !t.Has(func(x *Term) bool { return pp.match(x, map[string]string{}) }) {
			return false, "origin " + t.String() + " has no subterm " + pattern
		}
	}
	return true, s.String()
}

// opaqueOps are term operators that alter a value (a flow through them is not transparent).
var opaqueOps = map[string]bool{"binop": true, "slice": true, "elem": true, "append": true, "unop": true, "conv": true, "unknown": true, "copy": true}

// Transparent: no value-altering operator between the root of t and the subterm matching `until`
// (or anywhere, if until is empty).
func transparentUntil(t *Term, until *pat) bool {
	if until != nil && until.match(t, map[string]string{}) {
		return true
	}
	if opaqueOps[t.Op] {
		return false
	}
	for _, a := range t.Args {
		if !transparentUntil(a, until) {
			return false
		}
	}
	return true
}
