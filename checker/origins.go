package main

// E5 `origins` — backward value provenance over SSA.
//
// origins(v) is the set of origin terms an SSA value may denote. Terms are
// trees rendered as strings, so rules compare them structurally, never by
// position or local variable name.

import (
	"fmt"
	"hash/fnv"
	"go/token"
	"go/types"
	"sort"
	"strings"

	"golang.org/x/tools/go/ssa"
)

type Term struct {
	Op   string
	Name string
	Args []*Term
	str  string
}

func T(op, name string, args ...*Term) *Term {
	t := &Term{Op: op, Name: name, Args: args}
	var sb strings.Builder
	sb.WriteString(op)
	if name != "" || len(args) > 0 {
		sb.WriteByte('(')
		sb.WriteString(name)
		for i, a := range args {
			if i > 0 || name != "" {
				sb.WriteByte(',')
			}
			sb.WriteString(a.short())
		}
		sb.WriteByte(')')
	}
	t.str = sb.String()
	return t
}

// short renders a subterm; long subterms are abbreviated to op(name…)#hash so that
// set keys stay bounded while the tree (used by structural predicates) stays complete.
func (t *Term) short() string {
	if t == nil {
		return "_"
	}
	if len(t.str) <= 140 {
		return t.str
	}
	h := fnv.New32a()
	h.Write([]byte(t.str))
	return fmt.Sprintf("%s(%s…)#%08x", t.Op, t.Name, h.Sum32())
}

func (t *Term) String() string {
	if t == nil {
		return "_"
	}
	return t.str
}

// Walk visits t and all subterms (shared subterms once).
func (t *Term) Walk(fn func(*Term)) {
	seen := map[*Term]bool{}
	var rec func(x *Term)
	rec = func(x *Term) {
		if x == nil || seen[x] {
			return
		}
		seen[x] = true
		fn(x)
		for _, a := range x.Args {
			rec(a)
		}
	}
	rec(t)
}

// Has reports whether any subterm satisfies pred.
func (t *Term) Has(pred func(*Term) bool) bool {
	found := false
	t.Walk(func(x *Term) {
		if pred(x) {
			found = true
		}
	})
	return found
}

type TermSet map[string]*Term

func (s TermSet) add(t *Term) {
	if t != nil {
		s[t.String()] = t
	}
}
func (s TermSet) addAll(o TermSet) {
	for k, v := range o {
		s[k] = v
	}
}
func (s TermSet) Strings() []string {
	out := make([]string, 0, len(s))
	for k := range s {
		out = append(out, k)
	}
	sort.Strings(out)
	return out
}
func (s TermSet) String() string { return "{" + strings.Join(s.Strings(), " | ") + "}" }
func (s TermSet) List() []*Term {
	var out []*Term
	for _, k := range s.Strings() {
		out = append(out, s[k])
	}
	return out
}

// All reports whether every member satisfies pred (and the set is non-empty).
func (s TermSet) All(pred func(*Term) bool) bool {
	if len(s) == 0 {
		return false
	}
	for _, t := range s {
		if !pred(t) {
			return false
		}
	}
	return true
}
func (s TermSet) Any(pred func(*Term) bool) bool {
	for _, t := range s {
		if pred(t) {
			return true
		}
	}
	return false
}

// one collapses a set into a single term (phi of members) for use as an argument.
func (s TermSet) one() *Term {
	l := s.List()
	switch len(l) {
	case 0:
		return T("none", "")
	case 1:
		return l[0]
	}
	if len(l) > 12 {
		l = append(l[:12], T("more", ""))
	}
	return T("phi", "", l...)
}

const (
	maxTermLen = 1500
	maxSetSize = 48
	maxDepth   = 64
)

type originEngine struct {
	p     *Prog
	stop  map[string]bool // fnKey of in-scope functions not descended into
	memo  map[ssa.Value]TermSet
	busy  map[ssa.Value]bool
	depth int
	// alloc-site table
	allocs map[string]ssa.Value
}

// default stop set: converters, wrapper constructors, small helpers whose call-site arguments matter.
var defaultStop = []string{
	"int.ToKeyValue", "int.ToMetadata", "int.NewFnReadWriter", "int.StatsStartServerRPC",
	"goat.headersFromContext", "goat.contextFromHeaders", "goat.parseGrpcTimeout", "goat.parseRawMethod",
	"client.toStatusError", "client.errorIfDone",
	"server.NewServerStream", "server.NewServerTransportStream", "server.NewUnaryServerTransportStream",
	"client.NewStream", "client.NewRpcMultiplexer", "goat.NewGoatOverChannel", "goat.newHandler",
	"goat.handler.processUnaryRpc",
	"server.unaryServerTransportStream.GetHeaders", "server.unaryServerTransportStream.GetTrailers",
}

func (p *Prog) Origins() *originEngine {
	if p.orig == nil {
		p.orig = p.newOrigins(defaultStop)
	}
	return p.orig
}

func (p *Prog) newOrigins(stop []string) *originEngine {
	e := &originEngine{p: p, stop: map[string]bool{}, memo: map[ssa.Value]TermSet{}, busy: map[ssa.Value]bool{}, allocs: map[string]ssa.Value{}}
	for _, s := range stop {
		e.stop[s] = true
	}
	return e
}

func single(t *Term) TermSet { s := TermSet{}; s.add(t); return s }

func (e *originEngine) Of(v ssa.Value) TermSet {
	if v == nil {
		return single(T("none", ""))
	}
	if r, ok := e.memo[v]; ok {
		return r
	}
	if e.busy[v] {
		return single(T("cycle", ""))
	}
	if e.depth > maxDepth {
		return single(T("unknown", "depth"))
	}
	e.busy[v] = true
	e.depth++
	r := e.compute(v)
	e.depth--
	delete(e.busy, v)
	// bounds
	if len(r) > maxSetSize {
		r = single(T("unknown", "setsize"))
	}
	// results computed while a cycle was cut are not memoised if they contain the marker at top level only
	e.memo[v] = r
	return r
}

func (e *originEngine) one(v ssa.Value) *Term { return e.Of(v).one() }

func (e *originEngine) allocName(a ssa.Value) string {
	f := a.(ssa.Instruction).Parent()
	// ordinal of this alloc among allocs of the same type in the function (position-free)
	n := 0
	tk := typeKey(a.Type())
	kind := fmt.Sprintf("%T", a)
	done := false
	allInstrs(f, func(i ssa.Instruction) {
		if done {
			return
		}
		if v, ok := i.(ssa.Value); ok {
			if fmt.Sprintf("%T", i) == kind && typeKey(v.Type()) == tk {
				if v == a {
					done = true
					return
				}
				n++
			}
		}
	})
	name := fmt.Sprintf("%s@%s#%d", tk, e.p.fnKey(f), n)
	e.allocs[name] = a
	return name
}

func (e *originEngine) compute(v ssa.Value) TermSet {
	out := TermSet{}
	switch x := v.(type) {
	case *ssa.Const:
		if x.Value == nil {
			out.add(T("const", "nil"))
		} else {
			out.add(T("const", x.Value.ExactString()))
		}
	case *ssa.Global:
		out.add(T("globaladdr", globalName(x)))
	case *ssa.Function:
		out.add(T("closure", e.p.fnKey(x)))
	case *ssa.Builtin:
		out.add(T("builtin", x.Name()))
	case *ssa.Parameter:
		out.addAll(e.param(x))
	case *ssa.FreeVar:
		for _, b := range e.p.freeVarBindings(x) {
			out.addAll(e.Of(b))
		}
		if len(out) == 0 {
			out.add(T("freevar", e.p.fnKey(x.Parent())+":"+x.Name()))
		}
	case *ssa.Alloc:
		out.add(T("alloc", e.allocName(x)))
	case *ssa.MakeChan:
		out.add(T("makechan", e.allocName(x)))
	case *ssa.MakeMap:
		out.add(T("makemap", e.allocName(x)))
	case *ssa.MakeSlice:
		out.add(T("makeslice", e.allocName(x)))
	case *ssa.MakeClosure:
		out.add(T("closure", e.p.fnKey(x.Fn.(*ssa.Function))))
	case *ssa.MakeInterface:
		out.addAll(e.Of(x.X))
	case *ssa.ChangeType:
		out.addAll(e.Of(x.X))
	case *ssa.ChangeInterface:
		out.addAll(e.Of(x.X))
	case *ssa.TypeAssert:
		out.addAll(e.Of(x.X))
	case *ssa.Convert:
		out.add(T("conv", typeKey(x.Type()), e.one(x.X)))
	case *ssa.SliceToArrayPointer:
		out.add(T("conv", typeKey(x.Type()), e.one(x.X)))
	case *ssa.Phi:
		for _, ed := range x.Edges {
			out.addAll(e.Of(ed))
		}
	case *ssa.BinOp:
		out.add(T("binop", x.Op.String(), e.one(x.X), e.one(x.Y)))
	case *ssa.UnOp:
		switch x.Op {
		case token.MUL:
			out.addAll(e.load(x.X))
		case token.ARROW:
			out.add(T("recv", "", e.one(x.X)))
		default:
			out.add(T("unop", x.Op.String(), e.one(x.X)))
		}
	case *ssa.FieldAddr:
		for _, b := range e.Of(x.X).List() {
			out.add(T("addr", "", T("field", fieldName(x), b)))
		}
	case *ssa.Field:
		out.addAll(e.fieldLoad(x.X, x, false))
	case *ssa.IndexAddr:
		out.add(T("addr", "", T("elem", "", e.one(x.X))))
	case *ssa.Index:
		out.add(T("elem", "", e.one(x.X)))
	case *ssa.Lookup:
		if _, isMap := x.X.Type().Underlying().(*types.Map); isMap {
			if el := e.mapElems(x.X); len(el) > 0 {
				out.addAll(el)
			} else {
				out.add(T("lookup", "", e.one(x.X), e.one(x.Index)))
			}
		} else {
			out.add(T("elem", "", e.one(x.X)))
		}
	case *ssa.Slice:
		// slice of a local array literal (varargs, composite literals): list the elements
		if al, ok := x.X.(*ssa.Alloc); ok && x.Low == nil && x.High == nil {
			if _, isArr := deref(al.Type()).Underlying().(*types.Array); isArr {
				var elems []*Term
				if refs := al.Referrers(); refs != nil {
					var ias []*ssa.IndexAddr
					for _, r := range *refs {
						if ia, ok := r.(*ssa.IndexAddr); ok {
							ias = append(ias, ia)
						}
					}
					sort.Slice(ias, func(i, j int) bool {
						a, _ := constInt(ias[i].Index)
						b, _ := constInt(ias[j].Index)
						return a < b
					})
					for _, ia := range ias {
						if ir := ia.Referrers(); ir != nil {
							for _, u := range *ir {
								if st, ok := u.(*ssa.Store); ok && st.Addr == ia {
									elems = append(elems, e.one(st.Val))
								}
							}
						}
					}
				}
				out.add(T("list", "", elems...))
				break
			}
		}
		lo, hi := T("_", ""), T("_", "")
		if x.Low != nil {
			lo = e.one(x.Low)
		}
		if x.High != nil {
			hi = e.one(x.High)
		}
		out.add(T("slice", "", e.one(x.X), lo, hi))
	case *ssa.Extract:
		out.addAll(e.extract(x))
	case *ssa.Call:
		out.addAll(e.call(x, -1))
	case *ssa.Range:
		out.add(T("range", "", e.one(x.X)))
	case *ssa.Next:
		out.add(T("next", "", e.one(x.Iter)))
	case *ssa.Select:
		out.add(T("select", ""))
	case *ssa.MultiConvert:
		out.add(T("conv", typeKey(x.Type()), e.one(x.X)))
	default:
		out.add(T("unknown", fmt.Sprintf("%T", v)))
	}
	return out
}

func globalName(g *ssa.Global) string {
	if g.Pkg != nil {
		return shortPkg(g.Pkg.Pkg.Path()) + "." + g.Name()
	}
	return g.Name()
}

func fieldName(v ssa.Value) string {
	_, st, idx, ok := fieldInfo(v)
	if !ok {
		return "?"
	}
	if len(fieldAlias) > 0 {
		if k, ok := rawOwnerKey(v); ok {
			if a, moved := fieldAlias[k]; moved {
				return a.name
			}
		}
	}
	return st.Field(idx).Name()
}

// param: origins of a parameter = union over resolved in-scope call sites of the
// actual argument; API entries (exported functions of the root package, or functions
// without resolved callers) keep a symbolic param term.
func (e *originEngine) param(x *ssa.Parameter) TermSet {
	out := TermSet{}
	f := x.Parent()
	idx := -1
	for i, pr := range f.Params {
		if pr == x {
			idx = i
		}
	}
	key := e.p.fnKey(f)
	sym := T("param", key+":"+x.Name())
	sites := e.p.Callers(f)
	for _, cs := range sites {
		if idx < len(cs.args) {
			out.addAll(e.Of(cs.args[idx]))
		}
	}
	if len(sites) == 0 || e.p.isAPIEntry(f) {
		out.add(sym)
	}
	return out
}

// load: origins of *addr.
func (e *originEngine) load(addr ssa.Value) TermSet {
	out := TermSet{}
	switch a := addr.(type) {
	case *ssa.Alloc:
		stores := e.p.cellStores(a)
		for _, s := range stores {
			out.addAll(e.Of(s.Val))
		}
		if len(stores) == 0 {
			out.add(T("zero", typeKey(a.Type())))
		}
	case *ssa.FreeVar:
		for _, b := range e.p.freeVarBindings(a) {
			if al, ok := b.(*ssa.Alloc); ok {
				out.addAll(e.load(al))
			} else {
				// pointer captured by value
				out.addAll(e.loadVia(b))
			}
		}
		if len(out) == 0 {
			out.add(T("freevar", e.p.fnKey(a.Parent())+":"+a.Name()))
		}
	case *ssa.Global:
		out.add(T("global", globalName(a)))
	case *ssa.FieldAddr:
		out.addAll(e.fieldLoad(a.X, a, true))
	case *ssa.IndexAddr:
		out.add(T("elem", "", e.one(a.X)))
	default:
		out.addAll(e.loadVia(addr))
	}
	return out
}

func (e *originEngine) loadVia(ptr ssa.Value) TermSet {
	out := TermSet{}
	for _, b := range e.Of(ptr).List() {
		if b.Op == "addr" && len(b.Args) == 1 {
			out.add(b.Args[0])
		} else if b.Op == "alloc" {
			if al, ok := e.allocs[b.Name].(*ssa.Alloc); ok {
				out.addAll(e.load(al))
				continue
			}
			out.add(T("deref", "", b))
		} else {
			out.add(T("deref", "", b))
		}
	}
	return out
}

// fieldLoad: origins of base.f where fa is the FieldAddr/Field instruction.
func (e *originEngine) fieldLoad(base ssa.Value, fa ssa.Value, viaAddr bool) TermSet {
	out := TermSet{}
	fk, _ := ownerKey(fa)
	fname := fk.name
	bt := deref(base.Type())
	if !viaAddr {
		bt = base.Type()
	}
	scopeOwned := !isProtoMsg(bt) && (isScopeNamed(bt) || strings.Contains(fk.owner, ".") && isScopePath(scopePkgs[strings.SplitN(fk.owner, ".", 2)[0]]))
	// 0. object built by a constructor helper and completed here: the helper's and the caller's stores
	if root, isCall := e.p.rootOfBase(base).(*ssa.Call); isCall && !scopeOwned {
		sts := e.p.allocFieldStores(root, fname)
		for _, s := range sts {
			out.addAll(e.Of(s.Val))
		}
		if len(sts) == 0 {
			out.add(T("zero", typeKey(fa.Type())))
		}
		return out
	}
	// 1. local allocation of a message / foreign struct: instance-sensitive stores
	if al := e.localAlloc(base); al != nil && !scopeOwned {
		stores := e.p.allocFieldStores(al, fname)
		for _, s := range stores {
			out.addAll(e.Of(s.Val))
		}
		// struct value copied whole into the alloc (e.g. *al = someStruct)
		for _, s := range e.p.cellStores(al) {
			for _, t := range e.Of(s.Val).List() {
				out.add(T("field", fname, t))
			}
		}
		if len(out) == 0 {
			out.add(T("zero", typeKey(fa.Type())))
		}
		return out
	}
	if isProtoMsg(bt) {
		for _, b := range e.Of(base).List() {
			if b.Op == "alloc" {
				if al, ok := e.allocs[b.Name].(*ssa.Alloc); ok {
					sts := e.p.allocFieldStores(al, fname)
					for _, s := range sts {
						out.addAll(e.Of(s.Val))
					}
					if len(sts) == 0 {
						out.add(T("zero", typeKey(fa.Type())))
					}
					continue
				}
			}
			out.add(T("field", fname, b))
		}
		return out
	}
	if scopeOwned {
		// field-based: all stores to (owner, field) in scope
		stores := e.p.FieldStores(fk)
		for _, s := range stores {
			out.addAll(e.Of(s.Val))
		}
		if len(stores) == 0 {
			out.add(T("fieldzero", fk.String()))
		}
		return out
	}
	for _, b := range e.Of(base).List() {
		out.add(T("field", fname, b))
	}
	return out
}

// localAlloc: base is (a load of a cell holding only) an Alloc of the same function.
func (e *originEngine) localAlloc(base ssa.Value) *ssa.Alloc {
	switch b := base.(type) {
	case *ssa.Alloc:
		return b
	case *ssa.UnOp:
		if b.Op == token.MUL {
			if cell, ok := b.X.(*ssa.Alloc); ok {
				st := e.p.cellStores(cell)
				if len(st) == 1 {
					if al, ok := st[0].Val.(*ssa.Alloc); ok {
						return al
					}
				}
			}
		}
	}
	return nil
}

func (e *originEngine) extract(x *ssa.Extract) TermSet {
	out := TermSet{}
	switch t := x.Tuple.(type) {
	case *ssa.Call:
		out.addAll(e.call(t, x.Index))
	case *ssa.Select:
		// index 0: chosen case, 1: recvOk, 2+k: received values of recv states in order
		if x.Index >= 2 {
			k := x.Index - 2
			n := 0
			for _, st := range t.States {
				if st.Dir == types.RecvOnly {
					if n == k {
						out.add(T("recv", "", e.one(st.Chan)))
					}
					n++
				}
			}
		} else {
			out.add(T("selectctl", fmt.Sprint(x.Index)))
		}
	case *ssa.UnOp: // v, ok := <-ch
		if t.Op == token.ARROW {
			if x.Index == 0 {
				out.add(T("recv", "", e.one(t.X)))
			} else {
				out.add(T("recvok", "", e.one(t.X)))
			}
		}
	case *ssa.Lookup:
		if x.Index == 0 {
			if el := e.mapElems(t.X); len(el) > 0 {
				out.addAll(el)
			} else {
				out.add(T("lookup", "", e.one(t.X), e.one(t.Index)))
			}
		} else {
			out.add(T("lookupok", "", e.one(t.X), e.one(t.Index)))
		}
	case *ssa.TypeAssert:
		if x.Index == 0 {
			out.addAll(e.Of(t.X))
		} else {
			out.add(T("assertok", "", e.one(t.X)))
		}
	case *ssa.Next:
		switch x.Index {
		case 0:
			out.add(T("nextok", ""))
		case 1:
			out.add(T("rangekey", "", e.iterOf(t)))
		case 2:
			if r, ok := t.Iter.(*ssa.Range); ok {
				if el := e.mapElems(r.X); len(el) > 0 {
					out.addAll(el)
					break
				}
			}
			out.add(T("rangeval", "", e.iterOf(t)))
		}
	default:
		out.add(T("unknown", fmt.Sprintf("extract %T", x.Tuple)))
	}
	return out
}

func (e *originEngine) iterOf(n *ssa.Next) *Term {
	if r, ok := n.Iter.(*ssa.Range); ok {
		return e.one(r.X)
	}
	return e.one(n.Iter)
}

// call: origins of result idx (-1: single result) of call c.
func (e *originEngine) call(c *ssa.Call, idx int) TermSet {
	out := TermSet{}
	cc := &c.Call
	sfx := ""
	if idx >= 0 {
		sfx = fmt.Sprintf("#%d", idx)
	}
	if recv, f, ok := isPbGetter(cc); ok {
		// nil-safe generated getter == field load
		for _, b := range e.Of(recv).List() {
			if b.Op == "alloc" {
				if al, ok := e.allocs[b.Name].(*ssa.Alloc); ok {
					sts := e.p.allocFieldStores(al, f)
					for _, s := range sts {
						out.addAll(e.Of(s.Val))
					}
					if len(sts) == 0 {
						out.add(T("zero", typeKey(c.Type())))
					}
					continue
				}
			}
			out.add(T("field", f, b))
		}
		return out
	}
	if cc.IsInvoke() {
		args := []*Term{e.one(cc.Value)}
		for _, a := range cc.Args {
			args = append(args, e.one(a))
		}
		out.add(T("call", cc.Method.FullName()+sfx, args...))
		return out
	}
	callees := e.p.calleesOfValue(cc.Value, e)
	if b, ok := cc.Value.(*ssa.Builtin); ok {
		var args []*Term
		for _, a := range cc.Args {
			args = append(args, e.one(a))
		}
		out.add(T(b.Name(), "", args...))
		return out
	}
	descended := false
	for _, f := range callees {
		key := e.p.fnKey(f)
		if e.p.inScope[f] && !e.stop[key] && f.Blocks != nil {
			descended = true
			for _, b := range f.Blocks {
				if len(b.Instrs) == 0 {
					continue
				}
				if r, ok := b.Instrs[len(b.Instrs)-1].(*ssa.Return); ok {
					k := idx
					if k < 0 {
						k = 0
					}
					if k < len(r.Results) {
						out.addAll(e.Of(r.Results[k]))
					}
				}
			}
		} else {
			var args []*Term
			for _, a := range cc.Args {
				args = append(args, e.one(a))
			}
			name := key
			if !e.p.inScope[f] {
				name = calleeName(cc)
				if name == "" {
					name = f.String()
				}
			}
			out.add(T("call", name+sfx, args...))
		}
	}
	if len(callees) == 0 && !descended {
		args := []*Term{e.one(cc.Value)}
		for _, a := range cc.Args {
			args = append(args, e.one(a))
		}
		out.add(T("dyncall", sfx, args...))
	}
	return out
}

// ---- Prog-level indexes used by origins ----

type callSite struct {
	instr  ssa.CallInstruction
	caller *ssa.Function
	args   []ssa.Value // aligned with callee Params (receiver first)
}

func (p *Prog) isAPIEntry(f *ssa.Function) bool {
	if f.Parent() != nil || f.Pkg == nil {
		return false
	}
	if f.Pkg.Pkg.Path() != modPath {
		return false
	}
	if f.Object() == nil || !f.Object().Exported() {
		return false
	}
	if recv := f.Signature.Recv(); recv != nil {
		if n, ok := types.Unalias(deref(recv.Type())).(*types.Named); ok && !n.Obj().Exported() {
			return false
		}
	}
	return true
}

// Callers: resolved call sites (static calls, and closure calls resolved by provenance) in scope.
func (p *Prog) Callers(f *ssa.Function) []callSite {
	p.buildCallers()
	return p.callers[f]
}

func (p *Prog) buildCallers() {
	if p.callersOK {
		return
	}
	p.callersOK = true
	p.callers = map[*ssa.Function][]callSite{}
	// pass 1: static callees
	type pending struct {
		ci ssa.CallInstruction
		f  *ssa.Function
	}
	var dyn []pending
	for _, f := range p.Funcs {
		allInstrs(f, func(i ssa.Instruction) {
			ci, ok := i.(ssa.CallInstruction)
			if !ok {
				return
			}
			cc := ci.Common()
			if cc.IsInvoke() {
				return
			}
			if g := cc.StaticCallee(); g != nil {
				args := cc.Args
				if mc, ok := cc.Value.(*ssa.MakeClosure); ok {
					_ = mc
				}
				p.callers[g] = append(p.callers[g], callSite{ci, f, args})
				return
			}
			if _, ok := cc.Value.(*ssa.Builtin); ok {
				return
			}
			dyn = append(dyn, pending{ci, f})
		})
	}
	// pass 2: dynamic calls of closure values resolved through provenance
	e := p.newOrigins(defaultStop)
	for _, d := range dyn {
		cc := d.ci.Common()
		for _, g := range p.calleesOfValue(cc.Value, e) {
			dup := false
			for _, cs := range p.callers[g] {
				if cs.instr == d.ci {
					dup = true
				}
			}
			if !dup {
				p.callers[g] = append(p.callers[g], callSite{d.ci, d.f, cc.Args})
			}
		}
	}
}

// calleesOfValue resolves a called value to functions: static, or closure terms from provenance.
func (p *Prog) calleesOfValue(v ssa.Value, e *originEngine) []*ssa.Function {
	switch x := v.(type) {
	case *ssa.Function:
		return []*ssa.Function{x}
	case *ssa.MakeClosure:
		return []*ssa.Function{x.Fn.(*ssa.Function)}
	case *ssa.Builtin:
		return nil
	}
	var out []*ssa.Function
	for _, t := range e.Of(v).List() {
		if t.Op == "closure" {
			if f := p.fnByKey(t.Name); f != nil {
				out = append(out, f)
			}
		}
	}
	return out
}

func (p *Prog) fnByKey(k string) *ssa.Function {
	if p.fnKeyMemo == nil {
		p.fnKeyMemo = map[string]*ssa.Function{}
		for _, f := range p.Funcs {
			p.fnKeyMemo[p.fnKey(f)] = f
		}
	}
	return p.fnKeyMemo[k]
}

// freeVarBindings: the values bound to free variable fv at every MakeClosure of its function.
func (p *Prog) freeVarBindings(fv *ssa.FreeVar) []ssa.Value {
	f := fv.Parent()
	idx := -1
	for i, x := range f.FreeVars {
		if x == fv {
			idx = i
		}
	}
	p.buildClosureParents()
	var out []ssa.Value
	for _, mc := range p.closureParents[f] {
		if idx >= 0 && idx < len(mc.Bindings) {
			out = append(out, mc.Bindings[idx])
		}
	}
	return out
}

// cellAliases: the alloc itself plus every FreeVar (transitively) bound to it.
func (p *Prog) cellAliases(a *ssa.Alloc) []ssa.Value {
	out := []ssa.Value{a}
	f := a.Parent()
	var rec func(g *ssa.Function, v ssa.Value)
	rec = func(g *ssa.Function, v ssa.Value) {
		for _, an := range g.AnonFuncs {
			for _, mc := range p.closureMakes(an) {
				for bi, b := range mc.Bindings {
					if b == v && bi < len(an.FreeVars) {
						fv := an.FreeVars[bi]
						out = append(out, fv)
						rec(an, fv)
					}
				}
			}
		}
	}
	rec(f, a)
	return out
}

func (p *Prog) closureMakes(fn *ssa.Function) []*ssa.MakeClosure {
	p.buildClosureParents()
	return p.closureParents[fn]
}

func (p *Prog) buildClosureParents() {
	if p.closureParents != nil {
		return
	}
	p.closureParents = map[*ssa.Function][]*ssa.MakeClosure{}
	for _, g := range p.Funcs {
		allInstrs(g, func(i ssa.Instruction) {
			if mc, ok := i.(*ssa.MakeClosure); ok {
				fn := mc.Fn.(*ssa.Function)
				p.closureParents[fn] = append(p.closureParents[fn], mc)
			}
		})
	}
}

// cellStores: all stores whose address is the cell (alloc) or a free variable aliasing it.
func (p *Prog) cellStores(a *ssa.Alloc) []*ssa.Store {
	var out []*ssa.Store
	for _, al := range p.cellAliases(a) {
		refs := al.Referrers()
		if refs == nil {
			continue
		}
		for _, r := range *refs {
			if s, ok := r.(*ssa.Store); ok && s.Addr == al {
				out = append(out, s)
			}
		}
	}
	return out
}

// ---- object roots: a local allocation, or a call of a constructor helper ----
//
// A constructor helper is an in-scope function whose every return yields one local allocation of it (e.g. a
// `newRpc()` that builds the common part of an envelope). A call of it denotes a fresh object per call, exactly
// like a composite literal at the call site; the object's field stores are the helper's plus the caller's.

// ctorAlloc: the allocation a constructor helper returns (nil if f is not one).
func (p *Prog) ctorAlloc(f *ssa.Function) *ssa.Alloc {
	if p.ctorMemo == nil {
		p.ctorMemo = map[*ssa.Function]*ssa.Alloc{}
	}
	if a, ok := p.ctorMemo[f]; ok {
		return a
	}
	p.ctorMemo[f] = nil
	if f == nil || !p.inScope[f] || f.Blocks == nil || f.Signature.Results().Len() != 1 {
		return nil
	}
	// only straight-line builders count (a literal factored out of its users); a function with control flow that
	// happens to return a fresh object — processUnaryRpc building its reply — is a construction site of its own
	if len(f.Blocks) != 1 {
		return nil
	}
	if _, isPtr := f.Signature.Results().At(0).Type().Underlying().(*types.Pointer); !isPtr {
		return nil
	}
	var found *ssa.Alloc
	for _, r := range returnsOf(f) {
		v := p.derefLocal(stripConv(retVals(r)[0]))
		al, ok := v.(*ssa.Alloc)
		if !ok || !al.Heap || (found != nil && found != al) {
			return nil
		}
		found = al
	}
	p.ctorMemo[f] = found
	return found
}

// ctorCall: if v is a call of a constructor helper, the helper's allocation.
func (p *Prog) ctorCall(v ssa.Value) *ssa.Alloc {
	if c, ok := v.(*ssa.Call); ok {
		if sc := c.Call.StaticCallee(); sc != nil {
			return p.ctorAlloc(sc)
		}
	}
	return nil
}

// rootAliases: the root and every value that is the same object reference (captures of an alloc).
func (p *Prog) rootAliases(root ssa.Value) []ssa.Value {
	if a, ok := root.(*ssa.Alloc); ok {
		return p.cellAliases(a)
	}
	return []ssa.Value{root}
}

// allocBases: SSA values that denote (a pointer to) the object `root` (a local allocation or a constructor-helper
// call), inside the function nest: the root and its captures, loads of single-assignment cells holding it, and
// loads of a field of an enclosing local object into which it was stored (tr.Status, rpc.Header).
func (p *Prog) allocBases(root ssa.Value) map[ssa.Value]bool {
	if p.basesMemo == nil {
		p.basesMemo = map[ssa.Value]map[ssa.Value]bool{}
	}
	if b, ok := p.basesMemo[root]; ok {
		return b
	}
	bases := map[ssa.Value]bool{}
	p.basesMemo[root] = bases
	for _, al := range p.rootAliases(root) {
		bases[al] = true
	}
	for _, al := range p.rootAliases(root) {
		refs := al.Referrers()
		if refs == nil {
			continue
		}
		for _, r := range *refs {
			s, ok := r.(*ssa.Store)
			if !ok || s.Val != al {
				continue
			}
			switch addr := s.Addr.(type) {
			case *ssa.Alloc:
				if len(p.cellStores(addr)) == 1 {
					for _, ca := range p.cellAliases(addr) {
						if crefs := ca.Referrers(); crefs != nil {
							for _, cr := range *crefs {
								if ld, ok := cr.(*ssa.UnOp); ok && ld.Op == token.MUL {
									bases[ld] = true
								}
							}
						}
					}
				}
			case *ssa.FieldAddr:
				// stored into field f of an enclosing local object P: loads of P.f denote the root
				parent := p.rootOfBase(addr.X)
				if parent == nil || parent == root {
					continue
				}
				fname := fieldName(addr)
				if len(p.allocFieldStoresRaw(parent, fname)) != 1 {
					continue // field reassigned: loads may denote something else
				}
				for pb := range p.allocBases(parent) {
					prefs := pb.Referrers()
					if prefs == nil {
						continue
					}
					for _, pr := range *prefs {
						fa, ok := pr.(*ssa.FieldAddr)
						if !ok || fa.X != pb || fieldName(fa) != fname {
							continue
						}
						if frefs := fa.Referrers(); frefs != nil {
							for _, fr := range *frefs {
								if ld, ok := fr.(*ssa.UnOp); ok && ld.Op == token.MUL && ld.X == fa {
									bases[ld] = true
								}
							}
						}
					}
				}
			}
		}
	}
	return bases
}

// rootOfBase: the object root (local allocation or constructor-helper call) a base pointer value denotes.
func (p *Prog) rootOfBase(v ssa.Value) ssa.Value {
	switch x := v.(type) {
	case *ssa.Alloc:
		return x
	case *ssa.Call:
		if p.ctorCall(x) != nil {
			return x
		}
	case *ssa.FreeVar:
		for _, b := range p.freeVarBindings(x) {
			if r := p.rootOfBase(b); r != nil {
				return r
			}
		}
	case *ssa.UnOp:
		if x.Op == token.MUL {
			if cell, ok := p.rootOfBase(x.X).(*ssa.Alloc); ok && cell != nil {
				st := p.cellStores(cell)
				if len(st) == 1 {
					switch sv := st[0].Val.(type) {
					case *ssa.Alloc:
						return sv
					case *ssa.Call:
						if p.ctorCall(sv) != nil {
							return sv
						}
					}
				}
			}
		}
	}
	return nil
}

// allocOfBase: like rootOfBase, for callers that only care about true local allocations.
func (p *Prog) allocOfBase(v ssa.Value) *ssa.Alloc {
	if a, ok := p.rootOfBase(v).(*ssa.Alloc); ok {
		return a
	}
	return nil
}

func (p *Prog) allocFieldStoresRaw(root ssa.Value, name string) []*ssa.Store {
	var out []*ssa.Store
	if ca := p.ctorCall(root); ca != nil {
		// the helper's own stores come first
		out = append(out, p.allocFieldStoresRaw(ca, name)...)
	}
	for b := range p.allocBases(root) {
		refs := b.Referrers()
		if refs == nil {
			continue
		}
		for _, r := range *refs {
			fa, ok := r.(*ssa.FieldAddr)
			if !ok || fa.X != b || fieldName(fa) != name {
				continue
			}
			if frefs := fa.Referrers(); frefs != nil {
				for _, fr := range *frefs {
					if s, ok := fr.(*ssa.Store); ok && s.Addr == fa {
						out = append(out, s)
					}
				}
			}
		}
	}
	return out
}

// allocFieldStores: stores to field `name` of the object `root`, anywhere in the function nest (and, for a
// constructor-helper call, inside the helper).
func (p *Prog) allocFieldStores(root ssa.Value, name string) []*ssa.Store {
	out := p.allocFieldStoresRaw(root, name)
	sort.SliceStable(out, func(i, j int) bool {
		if out[i].Parent() != out[j].Parent() {
			return false
		}
		return out[i].Pos() < out[j].Pos()
	})
	return out
}

// FieldStores: every store to (owner, field) in scope (field-based).
func (p *Prog) FieldStores(k fieldKey) []*ssa.Store {
	if !p.fieldStoresOK {
		p.fieldStoresOK = true
		p.fieldStores = map[fieldKey][]*ssa.Store{}
		for _, f := range p.Funcs {
			allInstrs(f, func(i ssa.Instruction) {
				s, ok := i.(*ssa.Store)
				if !ok {
					return
				}
				if fa, ok := s.Addr.(*ssa.FieldAddr); ok {
					if fk, ok := ownerKey(fa); ok {
						p.fieldStores[fk] = append(p.fieldStores[fk], s)
					}
				}
			})
		}
	}
	return p.fieldStores[k]
}

// mapField: if m is a load of a goat-owned struct field of map type, its field key.
func mapField(m ssa.Value) (fieldKey, bool) {
	if ld, ok := m.(*ssa.UnOp); ok && ld.Op == token.MUL {
		if fa, ok := ld.X.(*ssa.FieldAddr); ok {
			return ownerKey(fa)
		}
	}
	return fieldKey{}, false
}

// MapUpdates: every m[k] = v in scope where m is a load of field fk (field-based map contents).
func (p *Prog) MapUpdates(fk fieldKey) []*ssa.MapUpdate {
	var out []*ssa.MapUpdate
	for _, f := range p.Funcs {
		allInstrs(f, func(i ssa.Instruction) {
			if mu, ok := i.(*ssa.MapUpdate); ok {
				if k, ok := mapField(mu.Map); ok && k == fk {
					out = append(out, mu)
				}
			}
		})
	}
	return out
}

func (e *originEngine) mapElems(m ssa.Value) TermSet {
	fk, ok := mapField(m)
	if !ok {
		return nil
	}
	out := TermSet{}
	for _, mu := range e.p.MapUpdates(fk) {
		out.addAll(e.Of(mu.Value))
	}
	return out
}
