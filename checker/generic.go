package main

// Generic rule families shared by several properties.

import (
	"go/constant"
	"fmt"
	"go/token"
	"go/types"
	"sort"
	"strings"

	"golang.org/x/tools/go/ssa"
)

// ---------- helpers ----------

var registryLocks = map[string]string{
	"client.RpcMultiplexer.mutex":      "client registry (handlers, rErr)",
	"goat.handler.mu":                  "server stream registry (streams)",
	"goat.Proxy.mutex":                 "proxy peer table (clients)",
	"goat.Demux.conns.Mutex":           "demux connection table",
	"goat.GoatOverHttp.conns.Mutex":    "http connection table",
}

// all mutexes known on the pinned tree (frozen table; a new one is reported as NEW-CONSTRUCT)
var knownLocks = map[string]bool{
	"client.RpcMultiplexer.mutex": true, "goat.handler.mu": true, "goat.Proxy.mutex": true,
	"goat.Demux.conns.Mutex": true, "goat.GoatOverHttp.conns.Mutex": true,
	"client.clientStream.protected.Mutex": true, "server.serverStream.protected.Mutex": true,
	"server.unaryServerTransportStream.mu": true,
}

// chanDesc: position-free description of a channel operand.
func (p *Prog) chanDesc(v ssa.Value) string {
	switch x := v.(type) {
	case *ssa.UnOp:
		if x.Op == token.MUL {
			if fa, ok := x.X.(*ssa.FieldAddr); ok {
				return fieldName(fa)
			}
			if fv, ok := x.X.(*ssa.FreeVar); ok {
				return fv.Name()
			}
			if al, ok := x.X.(*ssa.Alloc); ok {
				return al.Comment
			}
		}
	case *ssa.Field:
		return fieldName(x)
	case *ssa.Extract:
		if lk, ok := x.Tuple.(*ssa.Lookup); ok {
			if fk, ok := mapField(lk.X); ok {
				return fk.name + "[]"
			}
		}
		if nx, ok := x.Tuple.(*ssa.Next); ok {
			if r, ok := nx.Iter.(*ssa.Range); ok {
				if fk, ok := mapField(r.X); ok {
					return fk.name + "[]"
				}
			}
		}
	case *ssa.Lookup:
		if fk, ok := mapField(x.X); ok {
			return fk.name + "[]"
		}
	case *ssa.Parameter:
		return x.Name()
	case *ssa.FreeVar:
		return x.Name()
	case *ssa.Call:
		if x.Call.IsInvoke() && x.Call.Method.Name() == "Done" {
			return "Done()"
		}
		if n := calleeName(&x.Call); n != "" {
			return n + "()"
		}
	case *ssa.MakeChan:
		return "make"
	}
	return "chan"
}

func (p *Prog) opDesc(op *BlockOp) string {
	switch op.Kind {
	case "send", "recv":
		return op.Kind + ":" + p.chanDesc(op.Chans[0])
	case "select":
		var ds []string
		for _, c := range op.Chans {
			ds = append(ds, p.chanDesc(c))
		}
		sort.Strings(ds)
		return "select:" + strings.Join(ds, "|")
	}
	return op.Kind
}

// chanClass: set of make sites / symbolic origins a channel value may denote.
func (p *Prog) chanClass(v ssa.Value) TermSet {
	return p.Origins().Of(v)
}

func classesIntersect(a, b TermSet) bool {
	for k, t := range a {
		if t.Op == "const" || t.Op == "zero" || t.Op == "cycle" || t.Op == "none" {
			continue
		}
		if _, ok := b[k]; ok {
			return true
		}
	}
	return false
}

// ---------- G1: nothing blocks while a registry lock may be held ----------

type blockException struct {
	reason   string
	validate func(c *Ctx, op *BlockOp) (bool, string)
}

func ruleNoBlockUnderRegistryLock(c *Ctx, rule string, lockFilter func(string) bool) {
	p := c.p
	le := p.Locks()
	be := p.Blocks()
	// inventory: acquisitions of registry locks; unknown locks
	nacq := 0
	for _, a := range le.acquires {
		k, _ := lockOp(commonOf(a))
		if _, ok := registryLocks[k]; ok && lockFilter(k) {
			nacq++
		}
		if !knownLocks[k] {
			c.undecided(rule, "NEW-CONSTRUCT:lock:"+k, "mutex not in the frozen lock table; it cannot be assumed to be (or not to be) a registry lock", p.ipos(a))
		}
	}
	c.inv("registry_lock_acquisitions", nacq)
	seen := map[string]bool{}
	nunder := 0
	for _, f := range p.Funcs {
		for _, op := range be.ops[f] {
			may := le.May(op.Instr)
			var held []string
			for k := range may {
				if _, ok := registryLocks[k]; ok && lockFilter(k) {
					held = append(held, k)
				}
			}
			if len(held) == 0 {
				continue
			}
			sort.Strings(held)
			nunder++
			construct := p.cname(f) + ":" + p.opDesc(op) + ":under:" + strings.Join(held, "+")
			if seen[construct] {
				continue
			}
			seen[construct] = true
			// exception X2: the single buffered completion signal
			if ok, why := exceptionDoneSignal(c, op); ok {
				c.check(rule, construct, true, "exception X2 re-validated: "+why, p.ipos(op.Instr))
				continue
			}
			c.check(rule, construct, false,
				fmt.Sprintf("blocking primitive %s executes while registry lock %s may be held (%s); the party that would unblock it needs the same lock", p.opDesc(op), strings.Join(held, ","), registryLocks[held[0]]),
				p.ipos(op.Instr))
		}
	}
	c.inv("blocking_primitives_under_registry_lock", nunder)
	// every registry-lock critical section was examined: record the clean ones as obligations too
	for _, a := range le.acquires {
		k, _ := lockOp(commonOf(a))
		if _, ok := registryLocks[k]; !ok || !lockFilter(k) {
			continue
		}
		construct := p.cname(a.Parent()) + ":section:" + k
		if seen["sec:"+construct] {
			continue
		}
		seen["sec:"+construct] = true
		dirty := false
		for s := range seen {
			if strings.HasPrefix(s, p.cname(a.Parent())+":") && strings.Contains(s, ":under:") && strings.Contains(s, k) {
				dirty = true
			}
		}
		if !dirty {
			c.check(rule, construct, true, "no blocking primitive reachable with this lock held in this function", p.ipos(a))
		}
	}
}

// exceptionDoneSignal: send on a channel whose every make site has capacity >= 1, which has exactly one
// send site in scope, not in a loop, in a critical section that also deletes the registry entry.
func exceptionDoneSignal(c *Ctx, op *BlockOp) (bool, string) {
	p := c.p
	if op.Kind != "send" {
		return false, ""
	}
	cls := p.chanClass(op.Chans[0])
	if len(cls) == 0 {
		return false, ""
	}
	for _, t := range cls {
		if t.Op != "makechan" {
			return false, ""
		}
		mk, ok := p.Origins().allocs[t.Name].(*ssa.MakeChan)
		if !ok {
			return false, ""
		}
		if n, ok := constInt(mk.Size); !ok || n < 1 {
			return false, ""
		}
	}
	nsend := 0
	for _, f := range p.Funcs {
		allInstrs(f, func(i ssa.Instruction) {
			switch x := i.(type) {
			case *ssa.Send:
				if classesIntersect(cls, p.chanClass(x.Chan)) {
					nsend++
				}
			case *ssa.Select:
				for _, st := range x.States {
					if st.Dir == types.SendOnly && classesIntersect(cls, p.chanClass(st.Chan)) {
						nsend++
					}
				}
			}
		})
	}
	if nsend != 1 || inLoop(op.Instr.Block()) {
		return false, ""
	}
	// entry deleted in the same function
	del := false
	allInstrs(op.Instr.Parent(), func(i ssa.Instruction) {
		if cc := commonOf(i); cc != nil {
			if b, ok := cc.Value.(*ssa.Builtin); ok && b.Name() == "delete" {
				del = true
			}
		}
	})
	if !del {
		return false, ""
	}
	return true, "capacity>=1 at every make site, exactly one send site for the class, not in a loop, registry entry deleted in the same critical section"
}

// ---------- G2: lock order ----------

func ruleLockOrder(c *Ctx, rule string) {
	le := c.p.Locks()
	es := le.EdgeSet()
	var edges []string
	for e := range es {
		edges = append(edges, e)
	}
	sort.Strings(edges)
	c.inv("lock_order_edges", edges)
	cyc := le.Cycle()
	c.check(rule, "lock-order-graph", cyc == nil, fmt.Sprintf("lock-order edges %v; cycle: %v", edges, cyc))
	for _, r := range le.reacq {
		k, _ := lockOp(commonOf(r))
		c.check(rule, c.p.fnKey(r.Parent())+":reacquire:"+k, false, "lock acquired while it may already be held by the same goroutine (sync.Mutex is not re-entrant)", c.p.ipos(r))
	}
	c.floor(rule, "lock acquisitions", len(le.acquires), 25)
}

// ---------- G3: guarded fields ----------

type guardEntry struct{ owner, field, lock string }

// guard table: discovered groups (anonymous struct embedding sync.Mutex) + named pairs (frozen, one reason each).
func (p *Prog) guardTable() []guardEntry {
	var out []guardEntry
	named := []guardEntry{
		{"client.RpcMultiplexer", "handlers", "client.RpcMultiplexer.mutex"}, // registry written by register/unregister/closeError, read by the read loop
		{"client.RpcMultiplexer", "rErr", "client.RpcMultiplexer.mutex"},     // sticky error, read by every caller
		{"goat.handler", "streams", "goat.handler.mu"},                        // "protects streams" (source comment)
		{"goat.Proxy", "clients", "goat.Proxy.mutex"},                         // peer table
		{"server.unaryServerTransportStream", "headers", "server.unaryServerTransportStream.mu"},
		{"server.unaryServerTransportStream", "headersSent", "server.unaryServerTransportStream.mu"},
		{"server.unaryServerTransportStream", "trailers", "server.unaryServerTransportStream.mu"},
	}
	out = append(out, named...)
	// discovered: fields of anonymous struct types that embed sync.Mutex
	for short, path := range scopePkgs {
		sp := p.byPkg[path]
		if sp == nil {
			continue
		}
		var names []string
		for n := range sp.Members {
			names = append(names, n)
		}
		sort.Strings(names)
		for _, n := range names {
			tn, ok := sp.Members[n].(*ssa.Type)
			if !ok {
				continue
			}
			st, ok := tn.Type().Underlying().(*types.Struct)
			if !ok {
				continue
			}
			for i := 0; i < st.NumFields(); i++ {
				f := st.Field(i)
				inner, ok := f.Type().(*types.Struct)
				if !ok {
					continue
				}
				hasMu := false
				for j := 0; j < inner.NumFields(); j++ {
					if inner.Field(j).Embedded() && typeKey(inner.Field(j).Type()) == "sync.Mutex" {
						hasMu = true
					}
				}
				if !hasMu {
					continue
				}
				owner := short + "." + n + "." + f.Name()
				for j := 0; j < inner.NumFields(); j++ {
					if inner.Field(j).Embedded() {
						continue
					}
					out = append(out, guardEntry{owner, inner.Field(j).Name(), owner + ".Mutex"})
				}
			}
		}
	}
	return out
}

// isInitPhase: the accessed object is allocated in this function (constructor) — not yet shared.
func (p *Prog) isInitPhase(fa *ssa.FieldAddr) bool {
	base := fa.X
	for {
		switch b := base.(type) {
		case *ssa.Alloc:
			return true
		case *ssa.FieldAddr:
			base = b.X
			continue
		case *ssa.UnOp:
			if b.Op == token.MUL {
				if cell, ok := b.X.(*ssa.Alloc); ok {
					st := p.cellStores(cell)
					if len(st) == 1 {
						if _, ok := st[0].Val.(*ssa.Alloc); ok {
							return true
						}
					}
				}
			}
		}
		return false
	}
}

func ruleGuardedFields(c *Ctx, rule string, filter func(guardEntry) bool) {
	p := c.p
	le := p.Locks()
	tbl := p.guardTable()
	idx := map[fieldKey]guardEntry{}
	for _, g := range tbl {
		if filter == nil || filter(g) {
			idx[fieldKey{g.owner, g.field}] = g
		}
	}
	naccess := map[fieldKey]int{}
	for _, f := range p.Funcs {
		allInstrs(f, func(i ssa.Instruction) {
			fa, ok := i.(*ssa.FieldAddr)
			if !ok {
				return
			}
			fk, ok := ownerKey(fa)
			if !ok {
				return
			}
			g, ok := idx[fk]
			if !ok {
				return
			}
			naccess[fk]++
			construct := p.cname(f) + ":" + fk.String()
			if p.isInitPhase(fa) {
				c.trivial(rule, construct+":init", true, "access to an object allocated in this function before it is shared (init phase)", p.ipos(i))
				return
			}
			// every use of the address must happen with the guard held
			okAll := true
			where := p.ipos(i)
			refs := fa.Referrers()
			if refs != nil {
				for _, r := range *refs {
					if !le.Must(r)[g.lock] {
						okAll = false
						where = p.ipos(r)
					}
				}
			}
			if !le.Must(i)[g.lock] {
				okAll = false
			}
			// a map (or slice) read out of a guarded field is still the shared object: iterating, indexing or updating
			// it must happen under the guard as well (handing the live map out of the critical section is a race)
			if refs != nil {
				for _, r := range *refs {
					ld, isLoad := r.(*ssa.UnOp)
					if !isLoad || ld.Op != token.MUL {
						continue
					}
					switch ld.Type().Underlying().(type) {
					case *types.Map, *types.Slice:
					default:
						continue
					}
					seenU := map[ssa.Value]bool{}
					var uses func(v ssa.Value)
					uses = func(v ssa.Value) {
						if seenU[v] || v.Referrers() == nil {
							return
						}
						seenU[v] = true
						for _, u := range *v.Referrers() {
							touch := false
							switch x := u.(type) {
							case *ssa.Phi:
								uses(x)
							case *ssa.Range:
								touch = true
								uses(x)
							case *ssa.Next, *ssa.Lookup, *ssa.MapUpdate, *ssa.Index, *ssa.IndexAddr:
								touch = true
							case *ssa.Call:
								if b, ok := x.Call.Value.(*ssa.Builtin); ok && (b.Name() == "delete" || b.Name() == "append") {
									touch = true
								}
							}
							if touch && !le.Must(u)[g.lock] {
								okAll = false
								where = p.ipos(u)
							}
						}
					}
					uses(ld)
				}
			}
			c.check(rule, construct, okAll, fmt.Sprintf("field %s is guarded by %s; must-lockset here %s", fk, g.lock, le.Must(i)), where)
		})
	}
	for fk := range idx {
		if naccess[fk] == 0 {
			c.trivial(rule, "unused-guard:"+fk.String(), true, "guarded field is declared but never accessed in scope")
		}
	}
	c.inv("guarded_fields", len(idx))
}

// ---------- G4: channel close / send exclusion ----------

type chanUse struct {
	instr ssa.Instruction
	ch    ssa.Value
	kind  string // send | close | recv
}

func (p *Prog) chanUses() []chanUse {
	if p.chanUsesMemo != nil {
		return p.chanUsesMemo
	}
	var out []chanUse
	defer func() { p.chanUsesMemo = out }()
	for _, f := range p.Funcs {
		allInstrs(f, func(i ssa.Instruction) {
			switch x := i.(type) {
			case *ssa.Send:
				out = append(out, chanUse{i, x.Chan, "send"})
			case *ssa.Select:
				for _, st := range x.States {
					if st.Dir == types.SendOnly {
						out = append(out, chanUse{i, st.Chan, "send"})
					} else {
						out = append(out, chanUse{i, st.Chan, "recv"})
					}
				}
			case *ssa.UnOp:
				if x.Op == token.ARROW {
					out = append(out, chanUse{i, x.X, "recv"})
				}
			case *ssa.Call:
				if b, ok := x.Call.Value.(*ssa.Builtin); ok && b.Name() == "close" {
					out = append(out, chanUse{i, x.Call.Args[0], "close"})
				}
			}
		})
	}
	return out
}

// sameSectionLookup: channel value v used at `use` was obtained from a registry lookup/range performed
// in the same function while lock L has been held continuously.
func (p *Prog) sameSectionLookup(v ssa.Value, use ssa.Instruction, lock string) bool {
	le := p.Locks()
	var src ssa.Instruction
	switch x := v.(type) {
	case *ssa.Extract:
		if lk, ok := x.Tuple.(*ssa.Lookup); ok {
			src = lk
		}
		if nx, ok := x.Tuple.(*ssa.Next); ok {
			src = nx
		}
	case *ssa.Lookup:
		src = x
	case *ssa.Field: // struct element: handler.ch
		return p.sameSectionLookup(x.X, use, lock)
	case *ssa.UnOp: // pointer element: conn.r
		if x.Op == token.MUL {
			if fa, ok := x.X.(*ssa.FieldAddr); ok {
				return p.sameSectionLookup(fa.X, use, lock)
			}
		}
	}
	if src == nil || src.Parent() != use.Parent() {
		return false
	}
	if !le.Must(src)[lock] || !le.Must(use)[lock] {
		return false
	}
	// no unlock of `lock` on any path from src to use
	between := reachFrom(src.Block())
	for b := range between {
		if !reachFrom(b)[use.Block()] {
			continue
		}
		for _, i := range b.Instrs {
			if cc := commonOf(i); cc != nil {
				if _, isDefer := i.(*ssa.Defer); isDefer {
					continue
				}
				if k, op := lockOp(cc); op == "unlock" && k == lock {
					// an unlock in a block strictly between (or after src in src's block and before use)
					if b == src.Block() && instrIndex(i) < instrIndex(src) {
						continue
					}
					if b == use.Block() && instrIndex(i) > instrIndex(use) {
						continue
					}
					return false
				}
			}
		}
	}
	return true
}

func ruleCloseSendExclusion(c *Ctx, rule string, classFilter func(desc string) bool) {
	p := c.p
	le := p.Locks()
	uses := p.chanUses()
	nclose := 0
	for _, cl := range uses {
		if cl.kind != "close" {
			continue
		}
		desc := p.chanDesc(cl.ch)
		if classFilter != nil && !classFilter(desc) {
			continue
		}
		nclose++
		cls := p.chanClass(cl.ch)
		closeLocks := le.Must(cl.instr)
		for _, s := range uses {
			if s.kind != "send" || !classesIntersect(cls, p.chanClass(s.ch)) {
				continue
			}
			construct := "close:" + p.cname(cl.instr.Parent()) + ":" + desc + "/send:" + p.cname(s.instr.Parent()) + ":" + p.chanDesc(s.ch)
			// safe pattern A: same registry lock, element looked up in the same critical section
			okA := false
			for l := range closeLocks {
				if le.Must(s.instr)[l] && p.sameSectionLookup(s.ch, s.instr, l) {
					okA = true
				}
			}
			// safe pattern B: the closer is sequenced after every send: close in F (or a closure deferred by F)
			// and the send in F itself
			okB := false
			cf, sf := cl.instr.Parent(), s.instr.Parent()
			if cf == sf && !reachFrom(cl.instr.Block())[s.instr.Block()] {
				okB = true
			}
			if cf.Parent() == sf && isDeferredClosureOf(cf, sf) {
				okB = true
			}
			detail := fmt.Sprintf("close under %s; send under %s", closeLocks, le.Must(s.instr))
			if okA {
				detail += " — same critical section as the registry lookup"
			} else if okB {
				detail += " — closer is sequenced after the only sender (same goroutine, deferred)"
			} else {
				detail = "send may execute after/concurrently with close of the same channel (send on closed channel panics the process): " + detail
			}
			c.check(rule, construct, okA || okB, detail, p.ipos(cl.instr), p.ipos(s.instr))
		}
	}
	c.inv("close_sites_examined", nclose)
}

func isDeferredClosureOf(cl, f *ssa.Function) bool {
	found := false
	allInstrs(f, func(i ssa.Instruction) {
		if d, ok := i.(*ssa.Defer); ok {
			if mc, ok := d.Call.Value.(*ssa.MakeClosure); ok && mc.Fn == cl {
				found = true
			}
		}
	})
	return found
}

// ruleNoDoubleClose: every close of a registry element is in a critical section that obtained the element
// from the registry and deletes it there; other classes have a single close site outside any loop.
func ruleNoDoubleClose(c *Ctx, rule string, classFilter func(desc string) bool) {
	p := c.p
	le := p.Locks()
	uses := p.chanUses()
	for _, cl := range uses {
		if cl.kind != "close" {
			continue
		}
		desc := p.chanDesc(cl.ch)
		if classFilter != nil && !classFilter(desc) {
			continue
		}
		construct := "close:" + p.cname(cl.instr.Parent()) + ":" + desc
		f := cl.instr.Parent()
		// registry element?
		isElem := strings.HasSuffix(desc, "[]") || isRegistryElemField(cl.ch)
		if isElem {
			ok := false
			for l := range le.Must(cl.instr) {
				if p.sameSectionLookup(cl.ch, cl.instr, l) && hasDeleteUnder(p, f, l) {
					ok = true
				}
			}
			c.check(rule, construct, ok, "close of a registry element must look the element up and delete it in one critical section (otherwise a second close panics)", p.ipos(cl.instr))
			continue
		}
		// a channel kept in a field of a shared record and closed by a function that takes the record from outside:
		// nothing says that function runs once per record — unless it is the deferred exit block of the record's own
		// loop. (A record found in its registry and deleted in the same critical section is the case above.)
		if ld, ok := cl.ch.(*ssa.UnOp); ok && ld.Op == token.MUL {
			if fa, ok := ld.X.(*ssa.FieldAddr); ok {
				base := fa.X
				_, isParam := base.(*ssa.Parameter)
				if ld2, ok := base.(*ssa.UnOp); ok {
					_, isParam = ld2.X.(*ssa.Parameter)
				}
				if isParam && !(f.Parent() != nil && isDeferredClosureOf(f, f.Parent())) && f.Signature.Recv() == nil {
					c.check(rule, construct, false, "close of a channel held in a record passed in as an argument: a second call closes it again (a close must be tied to removing the record from its registry, or to the exit of the record's own loop)", p.ipos(cl.instr))
					continue
				}
				if isParam && f.Signature.Recv() != nil && len(f.Params) > 1 {
					if pr, isP := base.(*ssa.Parameter); isP && pr != f.Params[0] {
						c.check(rule, construct, false, "close of a channel held in a record passed in as an argument: a second call closes it again (a close must be tied to removing the record from its registry, or to the exit of the record's own loop)", p.ipos(cl.instr))
						continue
					}
				}
			}
		}
		// single close site, not in loop, function runs once per channel (deferred closure of the owner loop)
		n := 0
		cls := p.chanClass(cl.ch)
		for _, o := range uses {
			if o.kind == "close" && classesIntersect(cls, p.chanClass(o.ch)) {
				n++
			}
		}
		c.check(rule, construct, n == 1 && !inLoop(cl.instr.Block()), fmt.Sprintf("%d close sites for this channel class; in loop: %v", n, inLoop(cl.instr.Block())), p.ipos(cl.instr))
	}
}

func isRegistryElemField(v ssa.Value) bool {
	switch x := v.(type) {
	case *ssa.Field:
		if _, ok := x.X.(*ssa.Extract); ok {
			return true
		}
	case *ssa.UnOp:
		if x.Op == token.MUL {
			if fa, ok := x.X.(*ssa.FieldAddr); ok {
				// conn.r where conn came from a registry lookup
				if ex, ok := fa.X.(*ssa.Extract); ok {
					if _, ok := ex.Tuple.(*ssa.Lookup); ok {
						return true
					}
				}
			}
		}
	}
	return false
}

func hasDeleteUnder(p *Prog, f *ssa.Function, lock string) bool {
	found := false
	allInstrs(f, func(i ssa.Instruction) {
		if cc := commonOf(i); cc != nil {
			if b, ok := cc.Value.(*ssa.Builtin); ok && b.Name() == "delete" && p.Locks().Must(i)[lock] {
				found = true
			}
		}
	})
	return found
}

// ---------- G5: escapability of blocking primitives ----------

type escException struct{ construct, reason string }

// ruleEscapable: every blocking primitive directly inside the given functions is escapable:
// select with a ctx.Done() case, transport/ctx call that is handed a context, or a named exception.
// ctxOK (optional) judges the escape context.
func ruleEscapable(c *Ctx, rule string, fns []*ssa.Function, exceptions map[string]string, ctxOK func(op *BlockOp, ctx ssa.Value) (bool, string)) int {
	p := c.p
	be := p.Blocks()
	n := 0
	seen := map[string]int{}
	for _, f := range fns {
		for _, op := range be.ops[f] {
			if strings.HasPrefix(op.Kind, "callback:") {
				continue // user code: its own liveness is the user's
			}
			n++
			construct := p.cname(f) + ":" + p.opDesc(op)
			seen[construct]++
			if seen[construct] > 1 {
				construct += fmt.Sprintf("#%d", seen[construct])
			}
			if why, ok := exceptions[construct]; ok {
				c.check(rule, construct, true, "exception: "+why, p.ipos(op.Instr))
				continue
			}
			switch {
			case op.Kind == "select" && len(op.EscapeCtx) > 0:
				ok, why := true, "select has a ctx.Done() case"
				if ctxOK != nil {
					ok = false
					var whys []string
					for _, cx := range op.EscapeCtx {
						o, w := ctxOK(op, cx)
						whys = append(whys, w)
						if o {
							ok = true
						}
					}
					why = strings.Join(whys, "; ")
				}
				c.check(rule, construct, ok, why, p.ipos(op.Instr))
			case op.CtxArg != nil:
				ok, why := true, "call is handed a context"
				if ctxOK != nil {
					ok, why = ctxOK(op, op.CtxArg)
				}
				c.check(rule, construct, ok, why, p.ipos(op.Instr))
			default:
				c.check(rule, construct, false, "blocking "+op.Kind+" with no context escape: once its peer is gone this goroutine/caller blocks for ever", p.ipos(op.Instr))
			}
		}
	}
	return n
}

// ctxRootsInclude builds a ctxOK predicate: the context's provenance contains one of the wanted substrings.
func (p *Prog) ctxFrom(wanted ...string) func(op *BlockOp, ctx ssa.Value) (bool, string) {
	return func(op *BlockOp, ctx ssa.Value) (bool, string) {
		ts := p.Origins().Of(ctx)
		for _, t := range ts {
			hit := t.Has(func(x *Term) bool {
				for _, w := range wanted {
					if strings.Contains(x.Op+"("+x.Name, w) {
						return true
					}
				}
				return false
			})
			if !hit {
				return false, "escape context " + ts.String() + " does not descend from " + strings.Join(wanted, " / ")
			}
		}
		return len(ts) > 0, "escape context descends from " + strings.Join(wanted, " / ")
	}
}

// ---------- must-pass-through ----------

// mustPass: every path from just after `from` to a function exit passes an instruction satisfying rel.
// Paths ending in no-return blocks (zerolog Panic) or explicit panics are ignored unless panicsCount.
// Returns the offending exit instruction, or nil.
func (p *Prog) mustPass(from ssa.Instruction, rel func(ssa.Instruction) bool, panicsCount bool) ssa.Instruction {
	type st struct {
		b   *ssa.BasicBlock
		idx int
	}
	seen := map[*ssa.BasicBlock]bool{}
	var bad ssa.Instruction
	var walk func(b *ssa.BasicBlock, idx int)
	walk = func(b *ssa.BasicBlock, idx int) {
		if bad != nil {
			return
		}
		for k := idx; k < len(b.Instrs); k++ {
			i := b.Instrs[k]
			if rel(i) {
				return
			}
			switch i.(type) {
			case *ssa.Return:
				bad = i
				return
			case *ssa.Panic:
				if panicsCount {
					bad = i
				}
				return
			}
		}
		if p.noReturn(b) {
			return
		}
		for si, s := range b.Succs {
			if deadEdge(b, si) {
				continue
			}
			if !seen[s] {
				seen[s] = true
				walk(s, 0)
			}
		}
	}
	walk(from.Block(), instrIndex(from)+1)
	return bad
}

// mustPassUnless: like mustPass, but successor edges for which prune(if, succIndex) holds are not followed.
func (p *Prog) mustPassUnless(from ssa.Instruction, rel func(ssa.Instruction) bool, prune func(*ssa.If, int) bool) ssa.Instruction {
	seen := map[*ssa.BasicBlock]bool{}
	var bad ssa.Instruction
	var walk func(b *ssa.BasicBlock, idx int)
	walk = func(b *ssa.BasicBlock, idx int) {
		if bad != nil {
			return
		}
		for k := idx; k < len(b.Instrs); k++ {
			i := b.Instrs[k]
			if rel(i) {
				return
			}
			switch i.(type) {
			case *ssa.Return:
				bad = i
				return
			case *ssa.Panic:
				return
			}
		}
		if p.noReturn(b) {
			return
		}
		ifi, _ := b.Instrs[len(b.Instrs)-1].(*ssa.If)
		for si, s := range b.Succs {
			if deadEdge(b, si) {
				continue
			}
			if ifi != nil && prune(ifi, si) {
				continue
			}
			if !seen[s] {
				seen[s] = true
				walk(s, 0)
			}
		}
	}
	walk(from.Block(), instrIndex(from)+1)
	return bad
}

// pathAvoiding: some path from just after `from` (or from the function entry when from is nil) reaches an
// instruction satisfying target without first passing one satisfying rel, not following pruned edges. Returns
// the target reached, or nil.
func (p *Prog) pathAvoiding(f *ssa.Function, from ssa.Instruction, target, rel func(ssa.Instruction) bool, prune func(*ssa.If, int) bool) ssa.Instruction {
	seen := map[*ssa.BasicBlock]bool{}
	var hit ssa.Instruction
	var walk func(b *ssa.BasicBlock, idx int)
	walk = func(b *ssa.BasicBlock, idx int) {
		if hit != nil {
			return
		}
		for k := idx; k < len(b.Instrs); k++ {
			i := b.Instrs[k]
			if rel(i) {
				return
			}
			if target(i) {
				hit = i
				return
			}
		}
		if p.noReturn(b) {
			return
		}
		ifi, _ := b.Instrs[len(b.Instrs)-1].(*ssa.If)
		for si, s := range b.Succs {
			if deadEdge(b, si) {
				continue
			}
			if ifi != nil && prune != nil && prune(ifi, si) {
				continue
			}
			if !seen[s] {
				seen[s] = true
				walk(s, 0)
			}
		}
	}
	if from == nil {
		seen[f.Blocks[0]] = true
		walk(f.Blocks[0], 0)
	} else {
		walk(from.Block(), instrIndex(from)+1)
	}
	return hit
}

// edgeImplies: the If edge (succ index) carries the given atom.
func (p *Prog) edgeImplies(f *ssa.Function, at string) func(*ssa.If, int) bool {
	return func(ifi *ssa.If, succ int) bool {
		for _, a := range p.factsOf(f).atomsOf(ifi.Cond, succ == 0, map[*ssa.BasicBlock]AtomSet{}, 0) {
			if a == at {
				return true
			}
		}
		return false
	}
}

// usesOf: instructions that use value v (referrers), following trivial conversions.
func usesOf(v ssa.Value) []ssa.Instruction {
	var out []ssa.Instruction
	seen := map[ssa.Value]bool{}
	var rec func(x ssa.Value)
	rec = func(x ssa.Value) {
		if seen[x] {
			return
		}
		seen[x] = true
		refs := x.Referrers()
		if refs == nil {
			return
		}
		for _, r := range *refs {
			out = append(out, r)
			switch y := r.(type) {
			case *ssa.ChangeType:
				rec(y)
			case *ssa.MakeInterface:
				rec(y)
			case *ssa.Phi:
				rec(y)
			}
		}
	}
	rec(v)
	return out
}

// ---------- G8: cancel functions are never dropped ----------

var ctxCtors = map[string]bool{
	"context.WithCancel": true, "context.WithTimeout": true, "context.WithDeadline": true, "context.WithCancelCause": true,
}

// consumed: on every path from def to exit the value is called, deferred, stored into a structure, returned,
// captured or passed on. A store into a local variable cell is not consumption: the cell's loads and captures are.
func (p *Prog) valueConsumedOnAllPaths(def ssa.Instruction, v ssa.Value) (bool, ssa.Instruction, []string) {
	useSet := map[ssa.Instruction]bool{}
	var kinds []string
	seen := map[ssa.Value]bool{}
	var consume func(x ssa.Value)
	consume = func(x ssa.Value) {
		if seen[x] {
			return
		}
		seen[x] = true
		refs := x.Referrers()
		if refs == nil {
			return
		}
		for _, u := range *refs {
			switch y := u.(type) {
			case *ssa.Call, *ssa.Defer, *ssa.Go:
				useSet[u] = true
				kinds = append(kinds, "call/defer")
			case *ssa.Return:
				useSet[u] = true
				kinds = append(kinds, "return")
			case *ssa.MakeClosure:
				useSet[u] = true
				kinds = append(kinds, "capture")
			case *ssa.MapUpdate:
				useSet[u] = true
				kinds = append(kinds, "mapstore")
			case *ssa.Store:
				if y.Val != x {
					continue
				}
				if cell, ok := y.Addr.(*ssa.Alloc); ok {
					if _, isStruct := deref(cell.Type()).Underlying().(*types.Struct); !isStruct {
						// local variable: follow its loads and captures
						if crefs := cell.Referrers(); crefs != nil {
							for _, cu := range *crefs {
								switch z := cu.(type) {
								case *ssa.MakeClosure:
									useSet[cu] = true
									kinds = append(kinds, "capture")
								case *ssa.UnOp:
									consume(z)
								}
							}
						}
						continue
					}
				}
				useSet[u] = true
				kinds = append(kinds, "store")
			case *ssa.ChangeType:
				consume(y)
			case *ssa.MakeInterface:
				consume(y)
			case *ssa.Phi:
				consume(y)
			}
		}
	}
	consume(v)
	bad := p.mustPass(def, func(i ssa.Instruction) bool { return useSet[i] }, false)
	return bad == nil, bad, kinds
}

func ruleCancelNotDropped(c *Ctx, rule string) {
	p := c.p
	n := 0
	var checkValue func(def ssa.Instruction, v ssa.Value, construct string, depth int)
	checkValue = func(def ssa.Instruction, v ssa.Value, construct string, depth int) {
		ok, bad, kinds := p.valueConsumedOnAllPaths(def, v)
		if !ok {
			c.check(rule, construct, false, "cancel function is dropped on a path to "+p.ipos(bad)+" (neither called, deferred, stored nor handed on): the context child stays registered in its parent", p.ipos(def), p.ipos(bad))
			return
		}
		c.check(rule, construct, true, "consumed on every path ("+strings.Join(dedup(kinds), ",")+")", p.ipos(def))
		if depth >= 4 {
			return
		}
		// ownership transfer by return: each caller must in turn consume it
		for _, u := range usesOf(v) {
			r, ok := u.(*ssa.Return)
			if !ok {
				continue
			}
			idx := -1
			for k, res := range r.Results {
				if res == v {
					idx = k
				}
			}
			if idx < 0 {
				// through phi: find index by type
				for k, res := range r.Results {
					if typeKey(res.Type()) == typeKey(v.Type()) {
						idx = k
					}
				}
			}
			f := r.Parent()
			for _, cs := range p.Callers(f) {
				call, ok := cs.instr.(*ssa.Call)
				if !ok {
					continue
				}
				var ext *ssa.Extract
				if refs := call.Referrers(); refs != nil {
					for _, rr := range *refs {
						if e, ok := rr.(*ssa.Extract); ok && e.Index == idx {
							ext = e
						}
					}
				}
				cons := "returned-by:" + p.cname(f) + "→" + p.cname(cs.caller)
				if ext == nil {
					c.check(rule, cons, false, "caller discards the returned cancel function", p.ipos(call))
					continue
				}
				dup := false
				for _, o := range c.obs {
					if o.Rule == rule && o.Construct == cons {
						dup = true
					}
				}
				if !dup {
					checkValue(ext, ext, cons, depth+1)
				}
			}
		}
	}
	for _, f := range p.Funcs {
		allInstrs(f, func(i ssa.Instruction) {
			call, ok := i.(*ssa.Call)
			if !ok || !ctxCtors[calleeName(&call.Call)] {
				return
			}
			n++
			construct := p.cname(f) + ":" + strings.TrimPrefix(calleeName(&call.Call), "context.")
			// disambiguate several sites in one function by ordinal
			k := 0
			for _, o := range c.obs {
				if o.Rule == rule && (o.Construct == construct || strings.HasPrefix(o.Construct, construct+"#")) && !strings.Contains(o.Construct, "→") {
					k++
				}
			}
			if k > 0 {
				construct += fmt.Sprintf("#%d", k+1)
			}
			var ext *ssa.Extract
			if refs := call.Referrers(); refs != nil {
				for _, r := range *refs {
					if e, ok := r.(*ssa.Extract); ok && e.Index == 1 {
						ext = e
					}
				}
			}
			if ext == nil {
				c.check(rule, construct, false, "cancel function result is discarded", p.ipos(i))
				return
			}
			checkValue(ext, ext, construct, 0)
		})
	}
	c.floor(rule, "context constructor sites", n, 9)
}

func dedup(s []string) []string {
	m := map[string]bool{}
	var o []string
	for _, x := range s {
		if !m[x] {
			m[x] = true
			o = append(o, x)
		}
	}
	sort.Strings(o)
	return o
}

// ---------- G6: panic sites and peer taint ----------

type panicSite struct {
	instr ssa.Instruction
	kind  string
}

func (p *Prog) panicSites() []panicSite {
	var out []panicSite
	for _, f := range p.Funcs {
		allInstrs(f, func(i ssa.Instruction) {
			switch x := i.(type) {
			case *ssa.Panic:
				if !x.Pos().IsValid() {
					return // synthetic "blocking select matched no case"
				}
				out = append(out, panicSite{i, "panic"})
			case *ssa.Call:
				if noReturnCalls[calleeName(&x.Call)] {
					out = append(out, panicSite{i, calleeName(&x.Call)})
				}
			}
		})
	}
	return out
}

// controllingConds: If conditions (in dominators of b) whose outcome can steer execution away from b.
func (p *Prog) controllingConds(b *ssa.BasicBlock) []*ssa.If {
	var out []*ssa.If
	for d := b.Idom(); d != nil; d = d.Idom() {
		if len(d.Instrs) == 0 {
			continue
		}
		ifi, ok := d.Instrs[len(d.Instrs)-1].(*ssa.If)
		if !ok {
			continue
		}
		for _, s := range d.Succs {
			if s != b && p.canAvoid(s, b, d) {
				out = append(out, ifi)
				break
			}
		}
	}
	return out
}

// canAvoid: from s, a function exit (or the deciding block d again) is reachable without entering b.
func (p *Prog) canAvoid(s, b, d *ssa.BasicBlock) bool {
	seen := map[*ssa.BasicBlock]bool{b: true}
	st := []*ssa.BasicBlock{s}
	for len(st) > 0 {
		x := st[len(st)-1]
		st = st[:len(st)-1]
		if seen[x] {
			continue
		}
		seen[x] = true
		if x == d {
			return true
		}
		if len(x.Succs) == 0 || p.noReturn(x) {
			return true
		}
		for si, sx := range x.Succs {
			if !deadEdge(x, si) {
				st = append(st, sx)
			}
		}
	}
	return false
}

// peerTainted: the term derives from data received from a peer (transport read, channel of envelopes, HTTP request).
func peerTainted(t *Term) bool {
	return t.Has(func(x *Term) bool {
		switch x.Op {
		case "recv":
			return true
		case "call", "dyncall":
			if strings.Contains(x.Name, "RpcReadWriter).Read") || strings.Contains(x.Name, "websocket.Conn).Read") || strings.Contains(x.Name, "io.ReadAll") {
				return true
			}
		case "param":
			if strings.HasSuffix(x.Name, "ServeHTTP:r") {
				return true
			}
		case "alloc":
			// envelope unmarshalled in place from transport bytes
			if strings.HasPrefix(x.Name, "pb.Rpc@goat.GoatOverHttp.ServeHTTP") || strings.HasPrefix(x.Name, "pb.Rpc@goat.goatOverWebsocket.Read") {
				return true
			}
		}
		return false
	})
}

func (p *Prog) condTaint(cond ssa.Value) (bool, string) {
	// look at the operands of the comparison (and through helper results)
	var vals []ssa.Value
	var collect func(v ssa.Value, d int)
	collect = func(v ssa.Value, d int) {
		if d > 4 {
			return
		}
		switch x := v.(type) {
		case *ssa.BinOp:
			collect(x.X, d+1)
			collect(x.Y, d+1)
		case *ssa.UnOp:
			if x.Op == token.NOT {
				collect(x.X, d+1)
				return
			}
			vals = append(vals, v)
		case *ssa.Phi:
			for _, e := range x.Edges {
				collect(e, d+1)
			}
		default:
			vals = append(vals, v)
		}
	}
	collect(cond, 0)
	for _, v := range vals {
		for _, t := range p.Origins().Of(v) {
			if peerTainted(t) {
				return true, t.String()
			}
		}
	}
	return false, ""
}

func rulePanicReachability(c *Ctx, rule string, fnFilter func(*ssa.Function) bool) {
	p := c.p
	n := 0
	for _, ps := range p.panicSites() {
		f := ps.instr.Parent()
		if fnFilter != nil && !fnFilter(f) {
			continue
		}
		n++
		construct := p.cname(f) + ":" + ps.kind
		k := 0
		for _, o := range c.obs {
			if o.Rule == rule && (o.Construct == construct || strings.HasPrefix(o.Construct, construct+"#")) {
				k++
			}
		}
		if k > 0 {
			construct += fmt.Sprintf("#%d", k+1)
		}
		conds := p.controllingConds(ps.instr.Block())
		tainted, why := false, ""
		for _, ci := range conds {
			if t, w := p.condTaint(ci.Cond); t {
				tainted, why = true, w
			}
		}
		if tainted {
			c.check(rule, construct, false, "panic site is controlled by data received from a peer ("+why+"): one envelope kills the process", p.ipos(ps.instr))
		} else {
			var cs []string
			for _, ci := range conds {
				cs = append(cs, p.Facts(ci).String())
			}
			c.check(rule, construct, true, fmt.Sprintf("panic site guarded only by local/API state (%d controlling conditions, none peer-derived)", len(conds)), p.ipos(ps.instr))
		}
	}
	c.inv("panic_sites", n)
}

// ---------- G7: optional sub-messages are nil-checked before field access ----------

var optionalSub = map[string]bool{"Header": true, "Status": true, "Body": true, "Trailer": true, "Reset_": true}

// subMsgSource: v is `x.F` / `x.GetF()` for an optional sub-message F of an *pb.Rpc x (possibly captured).
func (p *Prog) subMsgSource(v ssa.Value) (rpc ssa.Value, field string, viaGetter bool, ok bool) {
	switch x := v.(type) {
	case *ssa.UnOp:
		if x.Op == token.MUL {
			if fa, ok2 := x.X.(*ssa.FieldAddr); ok2 && typeKey(fa.X.Type()) == "pb.Rpc" && optionalSub[fieldName(fa)] {
				return fa.X, fieldName(fa), false, true
			}
			if fv, ok2 := x.X.(*ssa.FreeVar); ok2 {
				for _, b := range p.freeVarBindings(fv) {
					if al, ok3 := b.(*ssa.Alloc); ok3 {
						for _, s := range p.cellStores(al) {
							if r, f, g, ok4 := p.subMsgSource(s.Val); ok4 {
								return r, f, g, true
							}
						}
					}
				}
			}
		}
	case *ssa.Call:
		if recv, f, ok2 := isPbGetter(&x.Call); ok2 && typeKey(recv.Type()) == "pb.Rpc" && optionalSub[f] {
			return recv, f, true, true
		}
	case *ssa.FreeVar:
		for _, b := range p.freeVarBindings(x) {
			if r, f, g, ok2 := p.subMsgSource(b); ok2 {
				return r, f, g, true
			}
		}
	}
	return nil, "", false, false
}

// rpcConstructedHere: the Rpc (base) is a local allocation whose field `field` is stored in this function nest.
func (p *Prog) rpcFieldConstructedHere(rpc ssa.Value, field string) bool {
	if root := p.rootOfBase(rpc); root != nil {
		return len(p.allocFieldStores(root, field)) > 0
	}
	e := p.Origins()
	if al := e.localAlloc(rpc); al != nil {
		return len(p.allocFieldStores(al, field)) > 0
	}
	return false
}

func ruleOptionalSubMsgNilChecked(c *Ctx, rule string, fnFilter func(*ssa.Function) bool, entryFacts map[string][]string) int {
	p := c.p
	n := 0
	for _, f := range p.Funcs {
		if fnFilter != nil && !fnFilter(f) {
			continue
		}
		allInstrs(f, func(i ssa.Instruction) {
			var base ssa.Value
			var fname string
			switch x := i.(type) {
			case *ssa.FieldAddr:
				base, fname = x.X, fieldName(x)
			case *ssa.Call:
				// a generated getter on an optional sub-message is the nil-safe way to read it: an instance, trivially safe
				if recv, fld, ok := isPbGetter(&x.Call); ok {
					switch tk := typeKey(deref(recv.Type())); tk {
					case "pb.RequestHeader", "pb.ResponseStatus", "pb.Trailer", "pb.Body", "pb.Reset":
						n++
						c.trivial(rule, p.cname(f)+":"+strings.TrimPrefix(tk, "pb.")+".Get"+fld, true, "read through the nil-safe generated getter", p.ipos(i))
					}
				}
				return
			case *ssa.Field:
				return
			default:
				return
			}
			rpc, sub, _, ok := p.subMsgSource(base)
			if !ok {
				return
			}
			if p.rpcFieldConstructedHere(rpc, sub) {
				return
			}
			n++
			construct := p.cname(f) + ":" + sub + "." + fname
			path := p.lpath(base)
			facts := p.Facts(i)
			guarded := facts.NonNil(path)
			if !guarded {
				for k := range facts {
					if strings.HasPrefix(k, "nonnil("+path+".") {
						guarded = true
					}
				}
			}
			why := "fact nonnil(" + path + ") holds on every path"
			if !guarded {
				// entry fact by contract (established at every dispatch site; verified by ruleEntryFact)
				root := rootFn(f)
				for _, ef := range entryFacts[p.fnKey(root)] {
					if ef == sub && isParamRooted(rpc) {
						guarded = true
						why = "entry fact nonnil(rpc." + sub + ") established at every call site of " + p.fnKey(root)
					}
				}
			}
			if !guarded && sub == "Header" {
				// a helper that receives the envelope: the fact may hold at every one of its call sites
				if pr, isP := rpc.(*ssa.Parameter); isP && pr.Parent() == f {
					for k, x := range f.Params {
						if x == pr {
							if ok, w := p.entryHeaderNonNil(f, k, 0); ok {
								guarded, why = true, "entry fact: "+w
							}
						}
					}
				}
			}
			dup := false
			for _, o := range c.obs {
				if o.Rule == rule && o.Construct == construct {
					dup = true
					if o.Status == "pass" && !guarded {
						dup = false
						construct += "#unguarded"
					}
				}
			}
			if dup {
				return
			}
			if guarded {
				c.check(rule, construct, true, why, p.ipos(i))
			} else {
				c.check(rule, construct, false, "field "+fname+" of optional sub-message "+sub+" of a received envelope is accessed without a nil check (facts: "+facts.String()+")", p.ipos(i))
			}
		})
	}
	return n
}

func isParamRooted(v ssa.Value) bool {
	switch x := v.(type) {
	case *ssa.Parameter:
		return true
	case *ssa.FreeVar:
		return true
	case *ssa.UnOp:
		if x.Op == token.MUL {
			_, ok := x.X.(*ssa.FreeVar)
			return ok
		}
	}
	return false
}

// ---- statically dead branch edges ----

// constNil: the value is the nil constant on every path (a nil constant, or a φ of nil constants).
func constNil(v ssa.Value, depth int) bool {
	switch x := v.(type) {
	case *ssa.Const:
		return x.Value == nil && !isBasicNonNil(x)
	case *ssa.Phi:
		if depth > 3 {
			return false
		}
		for _, e := range x.Edges {
			if !constNil(e, depth+1) {
				return false
			}
		}
		return len(x.Edges) > 0
	}
	return false
}

func isBasicNonNil(c *ssa.Const) bool {
	// a nil Value in ssa.Const also denotes the zero value of some non-nillable types
	switch c.Type().Underlying().(type) {
	case *types.Pointer, *types.Interface, *types.Slice, *types.Map, *types.Chan, *types.Signature:
		return false
	}
	return true
}

// deadEdge: the edge pred → pred.Succs[si] can never be taken because the branch condition compares the nil
// constant with itself (typical after a helper was spliced in: `err` is literally nil on the success path).
func deadEdge(pred *ssa.BasicBlock, si int) bool {
	if len(pred.Instrs) == 0 || len(pred.Succs) != 2 {
		return false
	}
	ifi, ok := pred.Instrs[len(pred.Instrs)-1].(*ssa.If)
	if !ok {
		return false
	}
	if v, known := constBool(ifi.Cond, 0); known {
		taken := 1
		if v {
			taken = 0
		}
		return si != taken
	}
	b, ok := ifi.Cond.(*ssa.BinOp)
	if !ok || (b.Op != token.EQL && b.Op != token.NEQ) {
		return false
	}
	if !constNil(b.X, 0) || !constNil(b.Y, 0) {
		return false
	}
	taken := 0 // nil == nil → true branch
	if b.Op == token.NEQ {
		taken = 1
	}
	return si != taken
}

// constBool: the value is the same boolean constant on every path.
func constBool(v ssa.Value, depth int) (val, known bool) {
	switch x := v.(type) {
	case *ssa.Const:
		if x.Value != nil && x.Value.Kind() == constant.Bool {
			return constant.BoolVal(x.Value), true
		}
	case *ssa.UnOp:
		if x.Op == token.NOT {
			if b, ok := constBool(x.X, depth+1); ok {
				return !b, true
			}
		}
	case *ssa.Phi:
		if depth > 3 || len(x.Edges) == 0 {
			return false, false
		}
		first, ok := constBool(x.Edges[0], depth+1)
		if !ok {
			return false, false
		}
		for _, e := range x.Edges[1:] {
			if b, ok := constBool(e, depth+1); !ok || b != first {
				return false, false
			}
		}
		return first, true
	}
	return false, false
}
