package main

import (
	"fmt"
	"go/constant"
	"go/token"
	"go/types"
	"sort"
	"strings"

	"golang.org/x/tools/go/ssa"
)

func deref(t types.Type) types.Type {
	if p, ok := t.Underlying().(*types.Pointer); ok {
		return p.Elem()
	}
	return t
}

// typeKey gives "short.Name" for named types ("pb.Rpc", "goat.handler", "sync.Mutex"), else a type string
// with aliases resolved and short package names.
func typeKey(t types.Type) string {
	return typeStr(deref(t))
}

func typeStr(t types.Type) string {
	t = types.Unalias(t)
	switch x := t.(type) {
	case *types.Named:
		if x.Obj().Pkg() == nil {
			return x.Obj().Name()
		}
		return shortPkg(x.Obj().Pkg().Path()) + "." + x.Obj().Name()
	case *types.Pointer:
		return "*" + typeStr(x.Elem())
	case *types.Slice:
		return "[]" + typeStr(x.Elem())
	case *types.Array:
		return fmt.Sprintf("[%d]%s", x.Len(), typeStr(x.Elem()))
	case *types.Chan:
		return "chan " + typeStr(x.Elem())
	case *types.Map:
		return "map[" + typeStr(x.Key()) + "]" + typeStr(x.Elem())
	}
	return types.TypeString(t, func(p *types.Package) string { return shortPkg(p.Path()) })
}

func isProtoMsg(t types.Type) bool {
	t = deref(t)
	if n, ok := types.Unalias(t).(*types.Named); ok && n.Obj().Pkg() != nil && n.Obj().Pkg().Path() == protoPkg {
		_, isStruct := n.Underlying().(*types.Struct)
		return isStruct
	}
	return false
}

func isScopeNamed(t types.Type) bool {
	t = deref(t)
	if n, ok := types.Unalias(t).(*types.Named); ok && n.Obj().Pkg() != nil {
		return isScopePath(n.Obj().Pkg().Path())
	}
	return false
}

// structField returns the struct type and field var for FieldAddr/Field.
func fieldInfo(v ssa.Value) (base ssa.Value, st *types.Struct, idx int, ok bool) {
	switch x := v.(type) {
	case *ssa.FieldAddr:
		s, ok2 := deref(x.X.Type()).Underlying().(*types.Struct)
		if !ok2 {
			return nil, nil, 0, false
		}
		return x.X, s, x.Field, true
	case *ssa.Field:
		s, ok2 := x.X.Type().Underlying().(*types.Struct)
		if !ok2 {
			return nil, nil, 0, false
		}
		return x.X, s, x.Field, true
	}
	return nil, nil, 0, false
}

type fieldKey struct {
	owner string // "client.clientStream" or "client.clientStream.protected"
	name  string
}

func (k fieldKey) String() string { return k.owner + "." + k.name }

// ownerKey names the struct type that declares the field accessed by FieldAddr/Field v.
// Anonymous struct types are named after the field path that reaches them from a named type.
func ownerKey(v ssa.Value) (fieldKey, bool) {
	k, ok := rawOwnerKey(v)
	if ok {
		if a, moved := fieldAlias[k]; moved {
			return a, true
		}
	}
	return k, ok
}

// fieldAlias: fields that moved into a new nested struct, keyed as they are now, valued as the rules know them
// (rename.go movedFields; set by the loader).
var fieldAlias = map[fieldKey]fieldKey{}

func rawOwnerKey(v ssa.Value) (fieldKey, bool) {
	base, st, idx, ok := fieldInfo(v)
	if !ok {
		return fieldKey{}, false
	}
	name := st.Field(idx).Name()
	bt := deref(base.Type())
	if n, ok := types.Unalias(bt).(*types.Named); ok {
		return fieldKey{typeKey(n), name}, true
	}
	// anonymous struct: base must itself be a field access
	if pk, ok := ownerKey(base); ok {
		return fieldKey{pk.owner + "." + pk.name, name}, true
	}
	if ld, ok := base.(*ssa.UnOp); ok && ld.Op == token.MUL {
		if pk, ok := ownerKey(ld.X); ok {
			return fieldKey{pk.owner + "." + pk.name, name}, true
		}
	}
	return fieldKey{"?anon", name}, true
}

// callCommon helpers

func commonOf(i ssa.Instruction) *ssa.CallCommon {
	switch c := i.(type) {
	case *ssa.Call:
		return &c.Call
	case *ssa.Go:
		return &c.Call
	case *ssa.Defer:
		return &c.Call
	}
	return nil
}

// calleeName: full name of the called function/method when statically known
// (static call, or interface method), else "".
func calleeName(c *ssa.CallCommon) string {
	if c.IsInvoke() {
		return c.Method.FullName()
	}
	if f := c.StaticCallee(); f != nil {
		if f.Object() != nil {
			return f.Object().(*types.Func).FullName()
		}
		return f.String()
	}
	if b, ok := c.Value.(*ssa.Builtin); ok {
		return "builtin." + b.Name()
	}
	return ""
}

// isPbGetter reports whether c is a generated nil-safe getter x.GetF() on a goatorepo message,
// and returns the receiver and field name.
func isPbGetter(c *ssa.CallCommon) (recv ssa.Value, field string, ok bool) {
	f := c.StaticCallee()
	if f == nil || c.IsInvoke() || len(c.Args) != 1 {
		return nil, "", false
	}
	sig := f.Signature
	if sig.Recv() == nil || !isProtoMsg(sig.Recv().Type()) {
		return nil, "", false
	}
	n := f.Name()
	if !strings.HasPrefix(n, "Get") {
		return nil, "", false
	}
	fname := n[3:]
	st, _ := deref(sig.Recv().Type()).Underlying().(*types.Struct)
	if st == nil {
		return nil, "", false
	}
	for i := 0; i < st.NumFields(); i++ {
		if st.Field(i).Name() == fname {
			return c.Args[0], fname, true
		}
	}
	return nil, "", false
}

func constString(v ssa.Value) (string, bool) {
	if c, ok := v.(*ssa.Const); ok && c.Value != nil && c.Value.Kind() == constant.String {
		return constant.StringVal(c.Value), true
	}
	return "", false
}

func constInt(v ssa.Value) (int64, bool) {
	if c, ok := v.(*ssa.Const); ok && c.Value != nil && c.Value.Kind() == constant.Int {
		i, ok := constant.Int64Val(c.Value)
		return i, ok
	}
	return 0, false
}

func isNilConst(v ssa.Value) bool {
	c, ok := v.(*ssa.Const)
	return ok && c.Value == nil
}

func sortedKeys[M ~map[string]V, V any](m M) []string {
	ks := make([]string, 0, len(m))
	for k := range m {
		ks = append(ks, k)
	}
	sort.Strings(ks)
	return ks
}

// allInstrs iterates over instructions of f.
func allInstrs(f *ssa.Function, fn func(ssa.Instruction)) {
	dead := staticallyDead(f)
	for _, b := range f.Blocks {
		if dead[b] {
			continue
		}
		for _, i := range b.Instrs {
			fn(i)
		}
	}
}

var deadMemo = map[*ssa.Function]map[*ssa.BasicBlock]bool{}

// staticallyDead: blocks that can be entered only through an edge whose condition compares nil with nil (deadEdge):
// such code cannot execute and no rule looks at it. The recover block is entered by the runtime, not by an edge.
func staticallyDead(f *ssa.Function) map[*ssa.BasicBlock]bool {
	if d, ok := deadMemo[f]; ok {
		return d
	}
	any := false
	for _, b := range f.Blocks {
		for si := range b.Succs {
			if deadEdge(b, si) {
				any = true
			}
		}
	}
	d := map[*ssa.BasicBlock]bool{}
	if any && len(f.Blocks) > 0 {
		reach := map[*ssa.BasicBlock]bool{}
		var walk func(b *ssa.BasicBlock)
		walk = func(b *ssa.BasicBlock) {
			if reach[b] {
				return
			}
			reach[b] = true
			for si, s := range b.Succs {
				if !deadEdge(b, si) {
					walk(s)
				}
			}
		}
		walk(f.Blocks[0])
		if f.Recover != nil {
			walk(f.Recover)
		}
		for _, b := range f.Blocks {
			if !reach[b] {
				d[b] = true
			}
		}
	}
	deadMemo[f] = d
	return d
}

// withAnons: f and all nested anonymous functions.
func (p *Prog) withAnons(f *ssa.Function) []*ssa.Function {
	return append([]*ssa.Function{f}, p.Anons(f)...)
}

// rootFn returns the outermost enclosing named function.
func rootFn(f *ssa.Function) *ssa.Function {
	for f.Parent() != nil {
		f = f.Parent()
	}
	return f
}

// reachable blocks from b (forward).
func reachFrom(b *ssa.BasicBlock) map[*ssa.BasicBlock]bool {
	seen := map[*ssa.BasicBlock]bool{}
	var st []*ssa.BasicBlock
	st = append(st, b)
	for len(st) > 0 {
		x := st[len(st)-1]
		st = st[:len(st)-1]
		if seen[x] {
			continue
		}
		seen[x] = true
		st = append(st, x.Succs...)
	}
	return seen
}

// instrIndex returns the index of i in its block.
func instrIndex(i ssa.Instruction) int {
	for k, x := range i.Block().Instrs {
		if x == i {
			return k
		}
	}
	return -1
}

// instrDominates: a executes before b on every path to b (same function).
func instrDominates(a, b ssa.Instruction) bool {
	if a.Parent() != b.Parent() {
		return false
	}
	if a.Block() == b.Block() {
		return instrIndex(a) < instrIndex(b)
	}
	return a.Block().Dominates(b.Block())
}

// inLoop: block b is on a CFG cycle.
func inLoop(b *ssa.BasicBlock) bool {
	for _, s := range b.Succs {
		if reachFrom(s)[b] {
			return true
		}
	}
	return false
}

func isExitInstr(i ssa.Instruction) bool {
	switch i.(type) {
	case *ssa.Return, *ssa.Panic:
		return true
	}
	return false
}
