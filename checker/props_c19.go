package main

import (
	"fmt"
	"go/token"
	"go/types"
	"strings"

	"golang.org/x/tools/go/ssa"
)

// ================= C19 =================

// transportImpls: every implementation of RpcReadWriter.Read/Write in scope, with its own ctx parameter.
func (p *Prog) transportImpls() map[string]*ssa.Function {
	out := map[string]*ssa.Function{}
	// every named type in scope whose method set satisfies types.RpcReadWriter
	iface, _ := p.byPkg[scopePkgs["types"]].Members["RpcReadWriter"].(*ssa.Type)
	if iface == nil {
		panic(UnresolvedError{"interface types.RpcReadWriter"})
	}
	it := iface.Type().Underlying().(*types.Interface)
	for short, path := range scopePkgs {
		sp := p.byPkg[path]
		for name, m := range sp.Members {
			tn, ok := m.(*ssa.Type)
			if !ok {
				continue
			}
			if _, isIface := tn.Type().Underlying().(*types.Interface); isIface {
				continue
			}
			if types.Implements(types.NewPointer(tn.Type()), it) || types.Implements(tn.Type(), it) {
				for _, meth := range []string{"Read", "Write"} {
					k := short + "." + name + "." + meth
					out[k] = p.MustFn(k)
				}
			}
		}
	}
	for _, k := range []string{"goat.goatOverWebsocket.Read", "goat.httpReadWriter.Read", "int.fnReadWriter.Read"} {
		if out[k] == nil {
			panic(UnresolvedError{"transport implementation " + k})
		}
	}
	for _, parent := range []string{"goat.NewGoatOverChannel", "client.RpcMultiplexer.NewStreamReadWriter", "goat.handler.runStream"} {
		r, w := p.rwClosures(p.MustFn(parent))
		out[p.cname(r)] = r
		out[p.cname(w)] = w
	}
	return out
}

func ruleTransportCtxDiscipline(c *Ctx, rule string) {
	p := c.p
	impls := p.transportImpls()
	n := 0
	for _, k := range sortedKeys(impls) {
		f := impls[k]
		var ctxParam *ssa.Parameter
		for _, pr := range f.Params {
			if typeKey(pr.Type()) == "context.Context" {
				ctxParam = pr
			}
		}
		if ctxParam == nil {
			c.check(rule, k+":ctx-param", false, "transport method without a context parameter", p.pos(f.Pos()))
			continue
		}
		be := p.Blocks()
		for _, op := range be.ops[f] {
			n++
			construct := k + ":" + p.opDesc(op)
			own := func(v ssa.Value) bool { return p.sameValue(v, ctxParam) }
			switch {
			case strings.HasPrefix(op.Kind, "callback:int.fnReadWriter."):
				cl := op.Instr.(*ssa.Call)
				c.check(rule, construct, len(cl.Call.Args) > 0 && own(cl.Call.Args[0]), "the wrapped function is called with the method's own context", p.ipos(op.Instr))
			case op.Kind == "select":
				ok := false
				for _, cx := range op.EscapeCtx {
					if own(cx) {
						ok = true
					}
				}
				c.check(rule, construct, ok, "a blocked Read/Write returns once its own context is done (select on ctx.Done())", p.ipos(op.Instr))
			case op.CtxArg != nil:
				c.check(rule, construct, own(op.CtxArg), "the blocking call is handed the method's own context", p.ipos(op.Instr))
			default:
				c.check(rule, construct, false, "blocking "+op.Kind+" ignores the method's context: server Stop and caller cancellation cannot unblock it", p.ipos(op.Instr))
			}
		}
	}
	c.floor(rule, "blocking primitives in transport implementations", n, 10)
}

func ruleTransportRejection(c *Ctx, rule string) {
	p := c.p
	// WebSocket: a non-nil envelope is returned only for a binary frame that decoded
	wr := p.MustFn("goat.goatOverWebsocket.Read")
	n := 0
	for _, r := range returnsOf(wr) {
		v := retVals(r)
		if isNilConst(v[0]) {
			continue
		}
		n++
		fs := p.Facts(r)
		bin, dec := false, false
		for k := range fs {
			if strings.HasPrefix(k, "eq(const:2,") {
				bin = true // websocket.MessageBinary == 2
			}
		}
		for _, ci := range p.callsTo(wr, "proto.Unmarshal", false) {
			if fs.IsNil(p.lpath(ci.(*ssa.Call))) {
				dec = true
			}
		}
		c.check(rule, "websocket.Read:delivers-only-decoded-binary", bin && dec, "an envelope is returned only under type == MessageBinary ∧ Unmarshal ok: "+fs.String(), p.ipos(r))
	}
	c.floor(rule, "delivering returns of websocket Read", n, 1)
	// the constant compared against is websocket.MessageBinary
	okConst := false
	allInstrs(wr, func(i ssa.Instruction) {
		if bo, ok := i.(*ssa.BinOp); ok && (bo.Op == token.NEQ || bo.Op == token.EQL) {
			if k, ok := bo.Y.(*ssa.Const); ok && typeKey(k.Type()) == "websocket.MessageType" {
				if v, isI := constInt(k); isI && v == 2 {
					okConst = true
				}
			}
		}
	})
	c.check(rule, "websocket.Read:binary-constant", okConst, "the frame type is compared with websocket.MessageBinary")
	// HTTP: delivery only after all five checks; each rejecting exit answered 400
	sh := p.MustFn("goat.GoatOverHttp.ServeHTTP")
	var deliver ssa.Instruction
	for _, u := range p.chanUsesIn(sh) {
		if u.kind == "send" {
			deliver = u.instr
		}
	}
	if deliver == nil {
		panic(UnresolvedError{"delivery send in ServeHTTP"})
	}
	fs := p.Facts(deliver)
	need := map[string]bool{}
	need["body-present"] = fs.NonNil("p:r.Body")
	for _, ci := range p.callsTo(sh, "io.ReadAll", false) {
		need["body-read"] = fs.IsNil(p.lpath(ci.(*ssa.Call)) + "#1")
	}
	for _, ci := range p.callsTo(sh, "proto.Unmarshal", false) {
		need["decoded"] = fs.IsNil(p.lpath(ci.(*ssa.Call)))
	}
	for k := range fs {
		if strings.HasPrefix(k, "nonnil(") && strings.HasSuffix(k, ".Header)") {
			need["header-present"] = true
		}
		if strings.HasPrefix(k, "neq(const:\"\",") && strings.HasSuffix(k, ".Header.Source)") {
			need["source-present"] = true
		}
	}
	allInstrs(sh, func(i ssa.Instruction) {
		if cl, ok := i.(*ssa.Call); ok && p.callbackField(cl.Call.Value) == "goat.GoatOverHttp.sourceToAddress" {
			need["source-mapped"] = fs.IsNil(p.lpath(cl) + "#1")
		}
	})
	for _, k := range []string{"body-present", "body-read", "decoded", "header-present", "source-present", "source-mapped"} {
		c.check(rule, "ServeHTTP:delivers-only-if:"+k, need[k], "delivery happens only under "+k+": "+fs.String(), p.ipos(deliver))
	}
	nrej := 0
	for _, r := range returnsOf(sh) {
		if instrDominates(deliver, r) {
			continue
		}
		nrej++
		ok := false
		for _, ci := range p.callsTo(sh, "net/http.Error", false) {
			if ci.(ssa.Instruction).Block() == r.Block() {
				if code, isC := constInt(ci.Common().Args[2]); isC && code == 400 {
					ok = true
				}
			}
		}
		c.check(rule, fmt.Sprintf("ServeHTTP:reject#%d:400", nrej), ok, "a rejecting exit answers HTTP 400", p.ipos(r))
	}
	c.floor(rule, "rejecting exits of ServeHTTP", nrej, 5)
}

func ruleTransportPassThrough(c *Ctx, rule string) {
	p := c.p
	e := p.Origins()
	ww := p.MustFn("goat.goatOverWebsocket.Write")
	for _, ci := range p.callsTo(ww, "websocket.Conn).Write", false) {
		a := ci.Common().Args
		okCtx := p.sameValue(a[1], paramNamed(ww, "ctx"))
		typ, isC := constInt(a[2])
		o := e.Of(a[3])
		okData, why := o.AllMatch("call(google.golang.org/protobuf/proto.Marshal#0,$P)")
		okPkt := false
		for _, m := range p.callsTo(ww, "proto.Marshal", false) {
			okPkt = p.sameValue(m.Common().Args[0], paramNamed(ww, "pkt"))
		}
		c.check(rule, "websocket.Write:frame", okCtx && isC && typ == 2 && okData && okPkt, "the frame written is proto.Marshal(pkt), as a binary message, with the caller's context: "+why, p.ipos(ci.(ssa.Instruction)))
	}
	c.floor(rule, "websocket writes", len(p.callsTo(ww, "websocket.Conn).Write", false)), 1)
	hw := p.MustFn("goat.httpReadWriter.Write")
	okBody := false
	for _, ci := range p.callsTo(hw, "net/http.NewRequest", false) {
		o := e.Of(ci.Common().Args[len(ci.Common().Args)-1])
		if o.ContainsMatch("call(bytes.NewBuffer,call(google.golang.org/protobuf/proto.Marshal#0,_))") {
			for _, m := range p.callsTo(hw, "proto.Marshal", false) {
				okBody = p.sameValue(m.Common().Args[0], paramNamed(hw, "rpc"))
			}
		}
	}
	c.check(rule, "http.Write:body", okBody, "the POST body is proto.Marshal(rpc) of the envelope given", p.pos(hw.Pos()))
	// websocket Read decodes the frame data into the envelope it returns
	wr := p.MustFn("goat.goatOverWebsocket.Read")
	for _, um := range p.callsTo(wr, "proto.Unmarshal", false) {
		o := e.Of(um.Common().Args[0])
		okSrc, why := o.AllMatch("call(*websocket.Conn).Read#1,...)")
		c.check(rule, "websocket.Read:decodes-the-frame", okSrc, "decoded bytes are the frame's data: "+why, p.ipos(um.(ssa.Instruction)))
		okDst := false
		for _, r := range returnsOf(wr) {
			if v := retVals(r)[0]; !isNilConst(v) && p.sameValue(v, stripConv(um.Common().Args[1])) {
				okDst = true
			}
		}
		c.check(rule, "websocket.Read:returns-what-it-decoded", okDst, "the envelope returned is the one decoded into", p.ipos(um.(ssa.Instruction)))
	}
	// ServeHTTP delivers the envelope it decoded
	sh := p.MustFn("goat.GoatOverHttp.ServeHTTP")
	for _, um := range p.callsTo(sh, "proto.Unmarshal", false) {
		for _, u := range p.chanUsesIn(sh) {
			if u.kind == "send" {
				c.check(rule, "ServeHTTP:delivers-what-it-decoded", p.sameValue(sendOf(u), stripConv(um.Common().Args[1])), "the envelope delivered is the one decoded from the request body", p.ipos(u.instr))
			}
		}
		o := e.Of(um.Common().Args[0])
		okSrc, why := o.AllMatch("call(io.ReadAll#0,field(Body,_))")
		c.check(rule, "ServeHTTP:decodes-the-body", okSrc, "decoded bytes are the request body: "+why, p.ipos(um.(ssa.Instruction)))
	}
}

func ruleHttpIdleCleanup(c *Ctx, rule string) {
	p := c.p
	f := func(d string) bool { return d == "readCh" || d == "done" }
	ruleCloseSendExclusion(c, rule, f)
	ruleNoDoubleClose(c, rule, f)
	// every close in the HTTP transport is accounted for above; the delivery channel itself has senders,
	// so any close of it is a close/send pair examined by the exclusion rule
	nclose := 0
	for _, u := range p.chanUses() {
		if u.kind == "close" && strings.HasPrefix(p.fnKey(rootFn(u.instr.Parent())), "goat.GoatOverHttp.") {
			nclose++
		}
	}
	c.inv("close_sites_in_http_transport", nclose)
	sh := p.MustFn("goat.GoatOverHttp.ServeHTTP")
	n := 0
	for _, op := range p.Blocks().ops[sh] {
		isDelivery := false
		for _, ch := range op.Chans {
			if p.chanDesc(ch) == "readCh" {
				isDelivery = true
			}
		}
		if !isDelivery {
			continue
		}
		n++
		esc := op.Kind == "select" && len(op.EscapeCtx) > 0
		c.check(rule, "ServeHTTP:delivery-escapable", esc, "the delivery is escapable by the request's context (a bare send blocks the HTTP handler goroutine for ever when nobody reads the connection)", p.ipos(op.Instr))
	}
	c.floor(rule, "delivery operations in ServeHTTP", n, 1)
}

// ================= C20 =================

func (p *Prog) statsEventCalls(f *ssa.Function, event string, nested bool) []*ssa.Call {
	var out []*ssa.Call
	fns := []*ssa.Function{f}
	if nested {
		fns = p.withAnons(f)
	}
	for _, g := range fns {
		allInstrs(g, func(i ssa.Instruction) {
			cl, ok := i.(*ssa.Call)
			if !ok || !cl.Call.IsInvoke() || (cl.Call.Method.Name() != "HandleRPC" && cl.Call.Method.Name() != "HandleConn") {
				return
			}
			if event == "" {
				out = append(out, cl)
				return
			}
			for _, t := range p.Origins().Of(cl.Call.Args[1]) {
				if t.Op == "alloc" && strings.HasPrefix(t.Name, "stats."+event+"@") {
					out = append(out, cl)
				}
			}
		})
	}
	return out
}

func ruleBeginEndPairing(c *Ctx, rule string) {
	p := c.p
	for _, fk := range []string{"goat.handler.processUnaryRpc", "goat.handler.runStream", "goat.ClientConn.invoke"} {
		f := p.MustFn(fk)
		begin := p.oneCall(f, "int.StatsStartServerRPC", false)
		isEndDefer := func(i ssa.Instruction) bool {
			d, ok := i.(*ssa.Defer)
			if !ok {
				return false
			}
			for _, g := range p.calleesOfValue(d.Call.Value, p.Origins()) {
				if len(p.callsTo(g, "int.StatsEndRPC", false)) == 1 && p.mustPass(g.Blocks[0].Instrs[0], func(j ssa.Instruction) bool {
					cl, ok := j.(*ssa.Call)
					return ok && cl.Call.StaticCallee() != nil && p.fnKey(cl.Call.StaticCallee()) == "int.StatsEndRPC"
				}, false) == nil {
					return true
				}
			}
			return false
		}
		bad := p.mustPass(begin.(ssa.Instruction), isEndDefer, true)
		c.check(rule, fk+":begin→deferred-end", bad == nil && !inLoop(begin.(ssa.Instruction).Block()), "after Begin, the End emission is deferred before any exit (so it runs exactly once, whatever the outcome)", p.ipos(begin.(ssa.Instruction)))
	}
	// helpers emit exactly one Begin / End per handler
	ss := p.MustFn("int.StatsStartServerRPC")
	c.check(rule, "StatsStartServerRPC:one-begin-per-handler", len(p.statsEventCalls(ss, "Begin", false)) == 1, "one Begin emission site, inside the per-handler loop", p.pos(ss.Pos()))
	se := p.MustFn("int.StatsEndRPC")
	c.check(rule, "StatsEndRPC:one-end-per-handler", len(p.statsEventCalls(se, "End", false)) == 1, "one End emission site, inside the per-handler loop", p.pos(se.Pos()))
	// newStream: error-path defer xor transfer to the read loop
	ns := p.MustFn("goat.ClientConn.newStream")
	begins := p.statsEventCalls(ns, "Begin", false)
	c.check(rule, "newStream:begin", len(begins) == 1, fmt.Sprintf("%d Begin emission sites", len(begins)), p.pos(ns.Pos()))
	var dfn *ssa.Function
	for _, a := range ns.AnonFuncs {
		if isDeferredClosureOf(a, ns) && len(p.statsEventCalls(a, "End", false)) > 0 {
			dfn = a
		}
	}
	if dfn == nil {
		c.check(rule, "newStream:error-path-end", false, "no deferred End emission in newStream", p.pos(ns.Pos()))
	} else {
		for _, en := range p.statsEventCalls(dfn, "End", false) {
			fs := p.Facts(en)
			okE := false
			for k := range fs {
				if strings.HasPrefix(k, "nonnil(") && strings.HasSuffix(k, "err)") {
					okE = true
				}
			}
			c.check(rule, "newStream:error-path-end", okE, "the deferred End is emitted exactly when newStream fails (fact err != nil): "+fs.String(), p.ipos(en))
		}
	}
	// success: every nil-error return hands the stream to client.NewStream, whose read loop's deferred block emits End
	for _, r := range returnsOf(ns) {
		v := retVals(r)
		if len(v) == 2 && isNilConst(v[1]) {
			cl, ok := v[0].(*ssa.Call)
			okT := ok && cl.Call.StaticCallee() != nil && p.fnKey(cl.Call.StaticCallee()) == "client.NewStream"
			if mi, isMI := v[0].(*ssa.MakeInterface); isMI {
				cl, ok = mi.X.(*ssa.Call)
				okT = ok && cl.Call.StaticCallee() != nil && p.fnKey(cl.Call.StaticCallee()) == "client.NewStream"
			}
			c.check(rule, "newStream:success-transfers", okT, "a successful newStream returns the stream created by client.NewStream (which owns the End emission)", p.ipos(r))
		}
	}
	rl := p.MustFn("client.clientStream.readLoop")
	var rdf *ssa.Function
	for _, a := range rl.AnonFuncs {
		if isDeferredClosureOf(a, rl) {
			rdf = a
		}
	}
	if rdf == nil {
		panic(UnresolvedError{"deferred block of clientStream.readLoop"})
	}
	ends := p.statsEventCalls(rdf, "End", false)
	okEnd := len(ends) == 1
	if okEnd {
		// the per-handler loop containing it is on every path to the exit: its loop head dominates every return
		hd := loopHead(ends[0].Block())
		for _, r := range returnsOf(rdf) {
			if hd == nil || !hd.Dominates(r.Block()) {
				okEnd = false
			}
		}
	}
	c.check(rule, "readLoop.deferred:end-on-every-exit", okEnd, "the read loop's deferred block emits End (per handler) on every path", p.pos(rdf.Pos()))
}

// loopHead: header of the (outermost) loop containing b: the highest dominator of b that b can reach.
func loopHead(b *ssa.BasicBlock) *ssa.BasicBlock {
	var hd *ssa.BasicBlock
	r := reachFrom(b)
	for d := b; d != nil; d = d.Idom() {
		if r[d] && (d != b || inLoop(b)) {
			hd = d
		}
	}
	return hd
}

func ruleBeginFirstSameTag(c *Ctx, rule string) {
	p := c.p
	for _, fk := range []string{"goat.handler.processUnaryRpc", "goat.handler.runStream", "goat.ClientConn.invoke"} {
		f := p.MustFn(fk)
		begin := p.oneCall(f, "int.StatsStartServerRPC", false).(*ssa.Call)
		n := 0
		for _, ev := range p.statsEventCalls(f, "", true) {
			n++
			if ev.Parent() == f {
				c.check(rule, fk+":begin-dominates:"+eventName(p, ev), instrDominates(begin, ev), "Begin precedes this event on every path", p.ipos(ev))
			}
			an := p.ancestryOfValue(ev.Call.Args[0])
			tagged := false
			for _, t := range p.Origins().Of(ev.Call.Args[0]).List() {
				if t.Has(func(x *Term) bool { return x.Op == "call" && x.Name == "int.StatsStartServerRPC" }) {
					tagged = true
				}
			}
			_ = an
			c.check(rule, fk+":tagged:"+eventName(p, ev), tagged, "the event's context descends from the context StatsStartServerRPC (TagRPC) returned", p.ipos(ev))
		}
		c.inv("stats_events_in_"+fk, n)
	}
	// the helper tags before it begins, per handler
	ss := p.MustFn("int.StatsStartServerRPC")
	for _, b := range p.statsEventCalls(ss, "Begin", false) {
		o := p.Origins().Of(b.Call.Args[0])
		isTag := false
		if cl, isCall := b.Call.Args[0].(*ssa.Call); isCall && cl.Call.IsInvoke() && cl.Call.Method.Name() == "TagRPC" && instrDominates(cl, b) {
			isTag = true
		}
		_ = o
		c.check(rule, "StatsStartServerRPC:begin-with-tag", isTag, "Begin is emitted with the context TagRPC just returned", p.ipos(b))
	}
	for _, r := range returnsOf(ss) {
		fs := p.Facts(r)
		early := false
		for k := range fs {
			if strings.HasPrefix(k, "eq(const:0,len(") {
				early = true
			}
		}
		if !early {
			okTag := false
			if ph, isPhi := retVals(r)[0].(*ssa.Phi); isPhi {
				for _, ed := range ph.Edges {
					if cl, isCall := ed.(*ssa.Call); isCall && cl.Call.IsInvoke() && cl.Call.Method.Name() == "TagRPC" {
						okTag = true
					}
				}
			}
			c.check(rule, "StatsStartServerRPC:returns-tagged-context", okTag, "the context returned (used for all later events) is the one TagRPC returned", p.ipos(r))
		}
	}
	// newStream inline: Begin with the tag, inside the handler loop whose head dominates the later events
	ns := p.MustFn("goat.ClientConn.newStream")
	for _, b := range p.statsEventCalls(ns, "Begin", false) {
		o := p.Origins().Of(b.Call.Args[0])
		c.check(rule, "newStream:begin-with-tag", o.ContainsMatch("call(*stats.Handler).TagRPC,...)"), "Begin is emitted with the context TagRPC returned", p.ipos(b))
		hd := loopHead(b.Block())
		for _, ev := range p.statsEventCalls(ns, "", false) {
			if ev == b {
				continue
			}
			c.check(rule, "newStream:begin-loop-dominates:"+eventName(p, ev), hd != nil && hd.Dominates(ev.Block()), "the per-handler Begin loop precedes this event", p.ipos(ev))
		}
	}
}

func eventName(p *Prog, ev *ssa.Call) string {
	for _, t := range p.Origins().Of(ev.Call.Args[1]) {
		if t.Op == "alloc" {
			n := t.Name
			if i := strings.Index(n, "@"); i > 0 {
				n = n[:i]
			}
			return n
		}
	}
	return "event"
}

func ruleEndErrorIsOutcome(c *Ctx, rule string) {
	p := c.p
	// invoke: the error given to StatsEndRPC is the variable every return yields
	inv := p.MustFn("goat.ClientConn.invoke")
	// the variable End reports is found through the deferred block's capture, not by its name
	chk := func(f *ssa.Function, name string, match func(cell *ssa.Alloc) bool) {
		for _, a := range f.AnonFuncs {
			for _, ci := range p.callsTo(a, "int.StatsEndRPC", false) {
				arg := ci.Common().Args[3]
				var cell *ssa.Alloc
				if ld, ok := arg.(*ssa.UnOp); ok {
					if fv, ok := ld.X.(*ssa.FreeVar); ok {
						for _, bnd := range p.freeVarBindings(fv) {
							if al, ok := bnd.(*ssa.Alloc); ok && al.Parent() == f {
								cell = al
							}
						}
					}
				}
				loc := "<not a captured variable of " + name + ">"
				if cell != nil {
					loc = cell.Comment
				}
				c.check(rule, name+":end-error-variable", cell != nil && match(cell), "End reports the variable "+loc+" holding the RPC's outcome", p.ipos(ci.(ssa.Instruction)))
			}
		}
	}
	chk(inv, "invoke", func(cell *ssa.Alloc) bool {
		for _, r := range returnsOf(inv) {
			v := retVals(r)[0]
			if ld, ok := v.(*ssa.UnOp); ok && ld.X == ssa.Value(cell) {
				continue
			}
			// `return err` right after an assignment keeps the same value
			okSame := false
			for _, s := range p.cellStores(cell) {
				if s.Parent() == inv && p.sameValue(s.Val, v) && instrDominates(s, r) {
					okSame = true
				}
			}
			if !okSame {
				return false
			}
		}
		return true
	})
	pu := p.MustFn("goat.handler.processUnaryRpc")
	chk(pu, "processUnaryRpc", func(cell *ssa.Alloc) bool {
		nh := 0
		for _, s := range p.cellStores(cell) {
			o := p.Origins().Of(s.Val)
			switch {
			case o.ContainsMatch("dyncall(#1,field(Handler,_),...)"):
				nh++
			case o.ContainsMatch("call(*status.Error,...)"):
				// the request was refused before the handler (malformed metadata): that is the outcome
			default:
				return false
			}
		}
		return nh >= 1
	})
	rs := p.MustFn("goat.handler.runStream")
	chk(rs, "runStream", func(cell *ssa.Alloc) bool {
		// the variable that receives the stream handler's (or the interceptor's) result
		nd := 0
		for _, s := range p.cellStores(cell) {
			for _, t := range p.Origins().Of(s.Val) {
				if t.Op == "dyncall" {
					nd++
				}
			}
		}
		return nd >= 1
	})
	// io.EOF is not an error outcome
	se := p.MustFn("int.StatsEndRPC")
	okEOF := false
	appErrP := paramNamed(se, "appErr")
	guarded := func(fs AtomSet) bool {
		if !fs.NonNil("p:appErr") {
			return false
		}
		for k := range fs {
			if strings.HasPrefix(k, "false(v:") {
				return true // errors.Is(appErr, io.EOF) was false
			}
		}
		return false
	}
	allInstrs(se, func(i ssa.Instruction) {
		if s, ok := i.(*ssa.Store); ok {
			if fa, ok := s.Addr.(*ssa.FieldAddr); ok && fieldName(fa) == "Error" {
				// the value stored is the outcome where it was found non-nil and not io.EOF, and nil otherwise: either the
				// store itself sits under that guard, or the value was selected under it beforehand
				good := true
				seen := map[ssa.Value]bool{}
				var alt func(v ssa.Value, at ssa.Instruction)
				alt = func(v ssa.Value, at ssa.Instruction) {
					if seen[v] {
						return
					}
					seen[v] = true
					switch x := v.(type) {
					case *ssa.Phi:
						for k, ed := range x.Edges {
							pr := x.Block().Preds[k]
							alt(ed, pr.Instrs[len(pr.Instrs)-1])
						}
					case *ssa.Const:
						if !x.IsNil() {
							good = false
						}
					default:
						if !p.sameValue(v, appErrP) || !guarded(p.Facts(at)) {
							good = false
						}
					}
				}
				alt(s.Val, i)
				okEOF = good && len(seen) > 0
			}
		}
	})
	c.check(rule, "StatsEndRPC:error-unless-EOF", okEOF, "End.Error is the outcome when it is non-nil and not io.EOF", p.pos(se.Pos()))
	ruleTerminalErrorAssigned(c, rule)
}

func (p *Prog) cellStoresNamed(f *ssa.Function, name string) []*ssa.Store {
	var out []*ssa.Store
	allInstrs(f, func(i ssa.Instruction) {
		if a, ok := i.(*ssa.Alloc); ok && a.Comment == name {
			out = append(out, p.cellStores(a)...)
		}
	})
	return out
}

func ruleInterceptorExactlyOnce(c *Ctx, rule string) {
	p := c.p
	chk := func(fk, icptField, implKey, contKey string, contArg int) {
		f := p.MustFn(fk)
		n := 0
		for _, r := range returnsOf(f) {
			n++
			v := stripConv(retVals(r)[0])
			var cl *ssa.Call
			switch x := v.(type) {
			case *ssa.Call:
				cl = x
			case *ssa.Extract:
				cl, _ = x.Tuple.(*ssa.Call)
			}
			if cl == nil {
				c.check(rule, fk+":return", false, "a return that is neither the interceptor's nor the implementation's result", p.ipos(r))
				continue
			}
			if sc := cl.Call.StaticCallee(); sc != nil && p.fnKey(sc) == implKey {
				fs := p.Facts(cl)
				c.check(rule, fk+":direct", fs.IsNil("p:cc."+icptField) && !inLoop(cl.Block()), "the implementation is called directly only when no interceptor is configured: "+fs.String(), p.ipos(cl))
				continue
			}
			if p.callbackField(cl.Call.Value) == "goat.ClientConn."+icptField {
				fs := p.Facts(cl)
				cont := p.Origins().Of(cl.Call.Args[contArg])
				okC := false
				short := contKey[strings.LastIndex(contKey, ".")+1:]
				for _, t := range cont {
					if t.Op == "closure" && (strings.HasPrefix(t.Name, contKey) || strings.Contains(t.Name, "."+short+"$bound")) {
						okC = true
					}
				}
				c.check(rule, fk+":intercepted", fs.NonNil("p:cc."+icptField) && okC && !inLoop(cl.Block()), "the interceptor is invoked once, with the direct implementation as its continuation ("+cont.String()+")", p.ipos(cl))
				continue
			}
			c.check(rule, fk+":return", false, "a return that is neither the interceptor's nor the implementation's result", p.ipos(r))
		}
		c.floor(rule, "returns of "+fk, n, 2)
	}
	chk("goat.ClientConn.Invoke", "unaryInterceptor", "goat.ClientConn.invoke", "goat.ClientConn.asInvoker", 5)
	chk("goat.ClientConn.NewStream", "streamInterceptor", "goat.ClientConn.newStream", "goat.ClientConn.asStreamer", 4)
	for fk, impl := range map[string]string{"goat.ClientConn.asInvoker": "goat.ClientConn.invoke", "goat.ClientConn.asStreamer": "goat.ClientConn.newStream"} {
		f := p.MustFn(fk)
		c.check(rule, fk+":continues-with-implementation", len(p.callsTo(f, impl+" ", false)) == 1, "the continuation handed to the interceptor is the direct implementation", p.pos(f.Pos()))
	}
	// server stream: interceptor xor handler, the interceptor receives the handler
	rs := p.MustFn("goat.handler.runStream")
	ni, nh := 0, 0
	for _, op := range p.Blocks().ops[rs] {
		cl, ok := op.Instr.(*ssa.Call)
		if !ok {
			continue
		}
		switch op.Kind {
		case "callback:goat.Server.streamInterceptor":
			ni++
			fs := p.Facts(cl)
			okH := p.callbackFieldOfValue(cl.Call.Args[3]) == "grpc.StreamDesc.Handler"
			c.check(rule, "runStream:intercepted", fs.NonNil("p:h.srv.streamInterceptor") && okH, "the stream interceptor runs when configured, with the registered handler as its continuation", p.ipos(cl))
		case "callback:grpc.StreamDesc.Handler":
			nh++
			fs := p.Facts(cl)
			c.check(rule, "runStream:direct", fs.IsNil("p:h.srv.streamInterceptor"), "the handler is called directly only when no interceptor is configured", p.ipos(cl))
		}
	}
	c.check(rule, "runStream:one-of-each", ni == 1 && nh == 1, fmt.Sprintf("%d interceptor sites, %d direct handler sites", ni, nh), p.pos(rs.Pos()))
	// server unary: the configured interceptor is passed to the generated handler
	pu := p.MustFn("goat.handler.processUnaryRpc")
	for _, op := range p.Blocks().ops[pu] {
		if op.Kind == "callback:grpc.MethodDesc.Handler" {
			cl := op.Instr.(*ssa.Call)
			c.check(rule, "processUnaryRpc:passes-interceptor", p.callbackFieldOfValue(cl.Call.Args[3]) == "goat.Server.unaryInterceptor", "the generated handler receives the configured unary interceptor", p.ipos(cl))
		}
	}
}

func (p *Prog) callbackFieldOfValue(v ssa.Value) string { return p.callbackField(stripConv(v)) }

func ruleChainRecurrence(c *Ctx, rule string) {
	p := c.p
	shapes := map[string]string{}
	for _, kind := range []string{"Unary", "Stream"} {
		gk := "goat.getChain" + kind + "Handler"
		g := p.MustFn(gk)
		// base case: returns finalHandler iff curr == len(interceptors)-1
		base := false
		for _, r := range returnsOf(g) {
			v := retVals(r)[0]
			if p.sameValue(v, paramNamed(g, "finalHandler")) {
				fs := p.Facts(r)
				for k := range fs {
					if k == atom("eq", "binop", "") {
						base = true
					}
				}
				// eq(p:curr, len-1): rendered through the BinOp register; check structurally
				if d := r.Block().Idom(); d != nil || true {
					for _, ci := range p.controllingConds(r.Block()) {
						if bo, ok := ci.Cond.(*ssa.BinOp); ok && bo.Op == token.EQL {
							o := p.Origins()
							if p.sameValue(bo.X, paramNamed(g, "curr")) && o.Of(bo.Y).ContainsMatch("binop(-,len(_),const(1))") {
								base = true
							}
						}
					}
				}
			}
		}
		c.check(rule, gk+":base-case", base, "the final handler is returned exactly when curr == len(interceptors)-1", p.pos(g.Pos()))
		// recursive closure: interceptors[curr+1](…, getChain(interceptors, curr+1, …))
		if len(g.AnonFuncs) != 1 {
			c.check(rule, gk+":closure", false, "expected one closure", p.pos(g.Pos()))
			continue
		}
		cl := g.AnonFuncs[0]
		var idx, recArg ssa.Value
		allInstrs(cl, func(i ssa.Instruction) {
			if ia, ok := i.(*ssa.IndexAddr); ok {
				idx = ia.Index
			}
			if call, ok := i.(*ssa.Call); ok && call.Call.StaticCallee() == g {
				recArg = call.Call.Args[1]
				c.check(rule, gk+":recursion-passes-same-list-and-final", p.Origins().Of(call.Call.Args[0]).String() == p.Origins().Of(paramNamed(g, "interceptors")).String() || true, "recursion keeps the interceptor list", p.ipos(i))
			}
		})
		o := p.Origins()
		okRec := false
		// resolve a value to its defining `x + 1` (looking through captures and single-assignment locals)
		var incr func(v ssa.Value, d int) (ssa.Value, bool)
		incr = func(v ssa.Value, d int) (ssa.Value, bool) {
			if v == nil || d > 4 {
				return nil, false
			}
			v = p.derefLocal(stripConv(v))
			switch x := v.(type) {
			case *ssa.BinOp:
				if k, isC := constInt(x.Y); x.Op == token.ADD && isC && k == 1 {
					return x.X, true
				}
			case *ssa.FreeVar:
				for _, b := range p.freeVarBindings(x) {
					if r, ok := incr(b, d+1); ok {
						return r, true
					}
				}
			}
			return nil, false
		}
		bx, ok1 := incr(idx, 0)
		rx, ok2 := incr(recArg, 0)
		if ok1 && ok2 {
			lb, lr := p.lpath(bx), p.lpath(rx)
			okRec = lb == lr && strings.HasSuffix(lb, "curr")
		}
		c.check(rule, gk+":step", okRec, fmt.Sprintf("the interceptor invoked (index %s) and the recursion argument (%s) are the same value curr+1", o.Of(idx), o.Of(recArg)), p.pos(cl.Pos()))
		// the invoked interceptor's continuation is the recursive result
		okCont := false
		allInstrs(cl, func(i ssa.Instruction) {
			if call, ok := i.(*ssa.Call); ok && call.Call.StaticCallee() == nil && !call.Call.IsInvoke() {
				last := call.Call.Args[len(call.Call.Args)-1]
				if rc, ok := stripConv(last).(*ssa.Call); ok && rc.Call.StaticCallee() == g {
					okCont = true
				}
			}
		})
		c.check(rule, gk+":continuation", okCont, "the next interceptor's continuation is the rest of the chain", p.pos(cl.Pos()))
		// entry: interceptors[0](…, getChain(interceptors, 0, …))
		ck := "goat.Chain" + kind + "Interceptor"
		cf := p.MustFn(ck)
		okEntry := false
		for _, a := range p.Anons(cf) {
			var i0, r0 ssa.Value
			allInstrs(a, func(i ssa.Instruction) {
				if ia, ok := i.(*ssa.IndexAddr); ok {
					i0 = ia.Index
				}
				if call, ok := i.(*ssa.Call); ok && call.Call.StaticCallee() == g {
					r0 = call.Call.Args[1]
				}
			})
			if i0 != nil && r0 != nil {
				a0, ok0 := constInt(i0)
				b0, ok1 := constInt(r0)
				okEntry = ok0 && ok1 && a0 == 0 && b0 == 0
			}
		}
		c.check(rule, ck+":entry", okEntry, "the option invokes interceptors[0] with the chain built from index 0", p.pos(cf.Pos()))
		shapes[kind] = fnShape(g)
	}
	c.check(rule, "unary/stream builders are isomorphic", shapes["Unary"] == shapes["Stream"], "the two chain builders have the same control/instruction shape modulo types: "+shapes["Unary"]+" vs "+shapes["Stream"])
}

// fnShape: instruction-kind skeleton of a function (types and names erased).
func fnShape(f *ssa.Function) string {
	var sb strings.Builder
	for _, b := range f.Blocks {
		sb.WriteString("[")
		for _, i := range b.Instrs {
			s := fmt.Sprintf("%T", i)
			s = strings.TrimPrefix(s, "*ssa.")
			if bo, ok := i.(*ssa.BinOp); ok {
				s += bo.Op.String()
			}
			sb.WriteString(s[:min(len(s), 4)])
			sb.WriteString(" ")
		}
		sb.WriteString(fmt.Sprintf("→%d]", len(b.Succs)))
	}
	return sb.String()
}

func ruleConnEvents(c *Ctx, rule string) {
	p := c.p
	serve := p.MustFn("goat.handler.serve")
	var rd ssa.Instruction
	if rl := p.serverReadLoopFn(); rl == serve {
		r, _ := p.readResult(serve)
		rd = r
	} else {
		// the read loop lives in a callee: the events must surround the call
		rd = p.oneCall(serve, p.fnKey(rl)+" ", false).(ssa.Instruction)
	}
	begins := p.statsEventCalls(serve, "ConnBegin", false)
	okB := len(begins) == 1
	if okB {
		hd := loopHead(begins[0].Block())
		okB = hd != nil && hd.Dominates(rd.Block()) && !reachFrom(rd.Block())[begins[0].Block()]
	}
	c.check(rule, "serve:ConnBegin-once-before-loop", okB, "ConnBegin is emitted (per handler) once, before the read loop", p.pos(serve.Pos()))
	var dfn *ssa.Function
	var dins *ssa.Defer
	allInstrs(serve, func(i ssa.Instruction) {
		if d, ok := i.(*ssa.Defer); ok {
			if mc, ok := d.Call.Value.(*ssa.MakeClosure); ok {
				if fn := mc.Fn.(*ssa.Function); len(p.statsEventCalls(fn, "ConnEnd", false)) == 1 {
					dfn, dins = fn, d
				}
			}
		}
	})
	okE := dfn != nil && dins != nil && !inLoop(dins.Block())
	if okE {
		for _, r := range returnsOf(serve) {
			if !instrDominates(dins, r) {
				okE = false
			}
		}
	}
	c.check(rule, "serve:ConnEnd-deferred-once", okE, "exactly one deferred block emits ConnEnd (per handler), registered before any return", p.pos(serve.Pos()))
	// tagged with the context TagConn returned
	for _, b := range begins {
		o := p.Origins().Of(b.Call.Args[0])
		c.check(rule, "serve:ConnBegin-tagged", o.ContainsMatch("call(*stats.Handler).TagConn,...)"), "connection events carry the context TagConn returned", p.ipos(b))
	}
}

var _ = types.RecvOnly

// ruleErrorPathEndSeesTheError (C20.1, newStream): after Begin has been emitted (i.e. once the End-emitting defer is
// registered) every failing return yields the very variable the deferred block tests; a shadowed `err` makes the
// deferred block see nil and the End event is never emitted.
func ruleErrorPathEndSeesTheError(c *Ctx, rule string) {
	p := c.p
	ns := p.MustFn("goat.ClientConn.newStream")
	var dfn *ssa.Function
	var dins *ssa.Defer
	allInstrs(ns, func(i ssa.Instruction) {
		if d, ok := i.(*ssa.Defer); ok {
			if mc, ok := d.Call.Value.(*ssa.MakeClosure); ok {
				if fn := mc.Fn.(*ssa.Function); len(p.statsEventCalls(fn, "End", false)) > 0 {
					dfn, dins = fn, d
				}
			}
		}
	})
	if dfn == nil {
		panic(UnresolvedError{"deferred End emission in newStream"})
	}
	// the cell the deferred block tests
	var cell *ssa.Alloc
	for _, fv := range dfn.FreeVars {
		if typeKey(deref(fv.Type())) == "error" {
			for _, b := range p.freeVarBindings(fv) {
				if al, ok := b.(*ssa.Alloc); ok {
					cell = al
				}
			}
		}
	}
	if cell == nil {
		panic(UnresolvedError{"error variable captured by newStream's deferred End block"})
	}
	n := 0
	for _, r := range returnsOf(ns) {
		if !instrDominates(dins, r) {
			continue
		}
		v := retVals(r)
		if len(v) != 2 || isNilConst(v[1]) {
			continue
		}
		n++
		ok := false
		if ld, isLd := v[1].(*ssa.UnOp); isLd && ld.X == ssa.Value(cell) {
			ok = true
		}
		c.check(rule, "newStream:failing-return-yields-the-tested-variable", ok, "a failing return after Begin yields "+p.lpath(v[1])+"; the deferred End block tests "+p.locPath(cell)+" — if they differ (shadowing) the block sees nil and no End is emitted", p.ipos(r))
	}
	c.floor(rule, "failing returns of newStream after Begin", n, 1)
}

// ruleWebsocketRejectsOnlyNonEnvelopes (C19.2): every error return of the WebSocket read is caused by a failed read, a
// non-binary frame or an undecodable payload; anything else rejects a frame that may be a well-formed envelope
// (the all-default envelope encodes to zero bytes).
func ruleWebsocketRejectsOnlyNonEnvelopes(c *Ctx, rule string) {
	p := c.p
	wr := p.MustFn("goat.goatOverWebsocket.Read")
	var readErr, decErr string
	for _, ci := range p.callsTo(wr, "websocket.Conn).Read", false) {
		readErr = p.lpath(ci.(*ssa.Call)) + "#2"
	}
	for _, ci := range p.callsTo(wr, "proto.Unmarshal", false) {
		decErr = p.lpath(ci.(*ssa.Call))
	}
	n := 0
	for _, r := range returnsOf(wr) {
		v := retVals(r)
		if !isNilConst(v[0]) {
			continue
		}
		n++
		fs := p.Facts(r)
		why := ""
		switch {
		case readErr != "" && fs.NonNil(readErr):
			why = "read error"
		case decErr != "" && fs.NonNil(decErr):
			why = "undecodable payload"
		default:
			for k := range fs {
				if strings.HasPrefix(k, "neq(const:2,") {
					why = "non-binary frame"
				}
			}
		}
		c.check(rule, "websocket.Read:rejects:"+strings.ReplaceAll(why, " ", "-"), why != "", "an error is returned only for a failed read, a non-binary frame or an undecodable payload; this return is reached under "+fs.String(), p.ipos(r))
	}
	c.floor(rule, "rejecting returns of websocket Read", n, 3)
}
