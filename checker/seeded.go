package main

// Seeded-variant corpus (thorough tier, checker self-test): every stored variant is applied to a scratch copy of
// /repo's CURRENT tree (outside /repo and /verif, removed immediately), analysed in a subprocess, and must be
// reported (breaking variants) or must not be (benign variants). The property verdict itself still comes only
// from analysing /repo.

import (
	"hash/fnv"
	"encoding/json"
	"fmt"
	"os"
	"os/exec"
	"path/filepath"
	"sort"
	"strings"
	"sync"
)

type variantMeta struct {
	ID       string   `json:"id"`
	Kind     string   `json:"kind"` // breaking | benign
	Property string   `json:"property"`
	Expect   []string `json:"expect"` // rule ids expected to report (any of them), e.g. ["C03.4"]
	Also     []string `json:"also_properties"`
	Alarms   string   `json:"alarms_at_intake"` // benign variants: properties whose check alarmed when it was filed
}

func runSeededCorpus(pid, repo string) map[string]any {
	root := filepath.Join(verifDir(), "seeded")
	ents, _ := os.ReadDir(root)
	type res struct {
		id, status, detail string
	}
	var todo []variantMeta
	nSampledOut := 0
	for _, e := range ents {
		if !e.IsDir() {
			continue
		}
		b, err := os.ReadFile(filepath.Join(root, e.Name(), "meta.json"))
		if err != nil {
			continue
		}
		var m variantMeta
		if json.Unmarshal(b, &m) != nil {
			continue
		}
		m.ID = e.Name()
		if m.Kind == "missed" {
			continue // recorded as not caught by the static checks (DESIGN 8.6); nothing to assert
		}
		applies := m.Property == pid
		for _, a := range m.Also {
			if a == pid {
				applies = true
			}
		}
		if m.Kind == "benign" {
			// every benign variant that ever alarmed under this property is a regression test of its rules and always
			// runs; the others are spread over the properties (a third each: variant hash + property number), so that
			// the 20 thorough runs together stay within minutes. `VERIF_ALL_BENIGN=1` runs them all
			// (tools/runvariants_par.sh does the full cross product).
			applies = strings.Contains(m.Alarms, pid) || os.Getenv("VERIF_ALL_BENIGN") != ""
			if !applies {
				h := fnv.New32a()
				h.Write([]byte(m.ID))
				pn := 0
				fmt.Sscanf(pid, "C%d", &pn)
				applies = (int(h.Sum32()%3)+pn)%3 == 0
			}
			if !applies {
				nSampledOut++
			}
		}
		if applies {
			todo = append(todo, m)
		}
	}
	sort.Slice(todo, func(i, j int) bool { return todo[i].ID < todo[j].ID })
	results := make([]res, len(todo))
	sem := make(chan struct{}, 4)
	var wg sync.WaitGroup
	self, _ := os.Executable()
	for i, m := range todo {
		wg.Add(1)
		go func(i int, m variantMeta) {
			defer wg.Done()
			sem <- struct{}{}
			defer func() { <-sem }()
			results[i] = res{id: m.ID}
			scratch, err := os.MkdirTemp("", "goatseed")
			if err != nil {
				results[i].status, results[i].detail = "skipped", err.Error()
				return
			}
			defer os.RemoveAll(scratch)
			if out, err := exec.Command("rsync", "-a", "--exclude", ".git", repo+"/", scratch+"/").CombinedOutput(); err != nil {
				results[i].status, results[i].detail = "skipped", "copy failed: "+string(out)
				return
			}
			patch := filepath.Join(root, m.ID, "patch.diff")
			if out, err := exec.Command("patch", "-p1", "-s", "--forward", "--no-backup-if-mismatch", "-d", scratch, "-i", patch).CombinedOutput(); err != nil {
				results[i].status, results[i].detail = "skipped", "patch no longer applies: "+firstLines(string(out), 3)
				return
			}
			vd := filepath.Join(scratch, ".verif")
			os.MkdirAll(vd, 0o755)
			if b, err := os.ReadFile(filepath.Join(verifDir(), "known_findings.json")); err == nil {
				os.WriteFile(filepath.Join(vd, "known_findings.json"), b, 0o644)
			}
			os.Symlink(filepath.Join(verifDir(), "checker"), filepath.Join(vd, "checker"))
			cmd := exec.Command(self, pid, "quick")
			cmd.Env = append(os.Environ(), "GOAT_REPO="+scratch, "VERIF_DIR="+vd)
			out, _ := cmd.CombinedOutput()
			code := cmd.ProcessState.ExitCode()
			var hits []string
			for _, l := range strings.Split(string(out), "\n") {
				if strings.HasPrefix(l, "VIOLATION C") || strings.HasPrefix(l, "UNDECIDED C") {
					f := strings.Fields(l)
					if len(f) >= 3 {
						hits = append(hits, f[1]+" "+strings.TrimSuffix(f[2], ":"))
					}
				}
				if strings.HasPrefix(l, "BROKEN") {
					hits = append(hits, l)
				}
			}
			switch m.Kind {
			case "benign":
				if code == 0 {
					results[i].status = "silent (ok)"
				} else {
					results[i].status, results[i].detail = "FALSE-ALARM", strings.Join(hits, "; ")
				}
			default:
				matched := false
				for _, h := range hits {
					for _, e := range m.Expect {
						if strings.HasPrefix(h, e+" ") || e == "" {
							matched = true
						}
					}
				}
				if (len(m.Expect) == 0 || pid != m.Property) && code == 1 && len(hits) > 0 {
					matched = true // for a secondary property any reported obligation counts
				}
				if code == 1 && matched {
					results[i].status, results[i].detail = "reported (ok)", strings.Join(hits, "; ")
				} else if code == 2 {
					results[i].status, results[i].detail = "skipped", "variant does not build on the current tree: "+strings.Join(hits, "; ")
				} else {
					results[i].status, results[i].detail = "MISSED", fmt.Sprintf("exit %d; reported: %s; expected one of %v", code, strings.Join(hits, "; "), m.Expect)
				}
			}
		}(i, m)
	}
	wg.Wait()
	var missed, fa []string
	var list []any
	nrep, nskip, nsil := 0, 0, 0
	for _, r := range results {
		list = append(list, map[string]string{"variant": r.id, "result": r.status, "detail": r.detail})
		switch {
		case r.status == "MISSED":
			missed = append(missed, r.id)
		case r.status == "FALSE-ALARM":
			fa = append(fa, r.id+": "+r.detail)
		case strings.HasPrefix(r.status, "reported"):
			nrep++
		case strings.HasPrefix(r.status, "silent"):
			nsil++
		default:
			nskip++
		}
	}
	return map[string]any{"variants": len(results), "reported": nrep, "benign_silent": nsil, "skipped": nskip, "missed": missed, "false_alarms": fa, "benign_run_under_other_properties": nSampledOut, "results": list}
}
