package main

import (
	"fmt"
	"go/token"
	"go/types"
	"sort"
	"strings"

	"golang.org/x/tools/go/ssa"
)

// ================= C14 =================

func ruleClientRegistrationPairing(c *Ctx, rule string) {
	p := c.p
	// (a) unary: registration followed, with no exit in between, by the deferred unregistration
	f := p.MustFn("client.RpcMultiplexer.CallUnaryMethod")
	reg := p.oneCall(f, "client.RpcMultiplexer.registerHandler", false)
	dfr, _ := p.deferredCallTo(f, "client.RpcMultiplexer.unregisterHandler")
	isDeferUnreg := func(i ssa.Instruction) bool {
		return dfr != nil && i == ssa.Instruction(dfr)
	}
	// an exit under "registration refused" (registerHandler returned an error) is not a leak, provided a refusing
	// registerHandler has not inserted anything
	regErr := ""
	if rc, ok := reg.(*ssa.Call); ok && rc.Type().String() == "error" {
		regErr = p.lpath(rc)
	}
	bad := p.mustPassUnless(reg.(ssa.Instruction), isDeferUnreg, func(ifi *ssa.If, succ int) bool {
		if regErr == "" || ifi.Block() != reg.(ssa.Instruction).Block() {
			return false
		}
		for _, a := range p.factsOf(f).atomsOf(ifi.Cond, succ == 0, map[*ssa.BasicBlock]AtomSet{}, 0) {
			if a == atom("nonnil", regErr) {
				return true
			}
		}
		return false
	})
	c.check(rule, "CallUnaryMethod:register→defer-unregister", bad == nil, "no exit between a successful registration and the deferral of its unregistration", p.ipos(reg.(ssa.Instruction)))
	if regErr != "" {
		rh := p.MustFn("client.RpcMultiplexer.registerHandler")
		okRefuse := true
		for _, r := range returnsOf(rh) {
			if isNilConst(retVals(r)[0]) {
				continue
			}
			for _, mu := range p.MapUpdates(fieldKey{"client.RpcMultiplexer", "handlers"}) {
				if mu.Parent() == rh && (instrDominates(mu, r) || reachFrom(mu.Block())[r.Block()]) {
					okRefuse = false
				}
			}
		}
		c.check(rule, "registerHandler:refusal-inserts-nothing", okRefuse, "a registerHandler that returns an error has not inserted the channel", p.pos(rh.Pos()))
	}
	// (c) newStream: after a successful NewStreamReadWriter, teardown is called or handed to client.NewStream on every path
	ns := p.MustFn("goat.ClientConn.newStream")
	call := p.oneCall(ns, "client.RpcMultiplexer.NewStreamReadWriter", false).(*ssa.Call)
	td := extractOf(call, 2)
	errV := extractOf(call, 3)
	if td == nil || errV == nil {
		c.check(rule, "newStream:teardown-obtained", false, "the teardown function returned by NewStreamReadWriter is discarded", p.ipos(call))
	} else {
		uses := map[ssa.Instruction]bool{}
		for _, u := range usesOf(td) {
			switch u.(type) {
			case *ssa.Call, *ssa.Defer, *ssa.Go, *ssa.MakeClosure, *ssa.Store:
				uses[u] = true
			}
		}
		// a deferred closure that captures teardown and calls it under the error condition also counts when
		// it is registered: treat the Defer of such a closure as consuming
		errPath := p.lpath(errV)
		errPaths := map[string]bool{atom("nonnil", errPath): true}
		for _, u := range usesOf(errV) {
			if s, ok := u.(*ssa.Store); ok && s.Val == ssa.Value(errV) {
				errPaths[atom("nonnil", p.locPath(s.Addr))] = true
			}
		}
		// only the error test that immediately follows the call (same block) is the "open failed" exit
		bad := p.mustPassUnless(call, func(i ssa.Instruction) bool { return uses[i] }, func(ifi *ssa.If, succ int) bool {
			if ifi.Block() != call.Block() {
				return false
			}
			for _, a := range p.factsOf(ns).atomsOf(ifi.Cond, succ == 0, map[*ssa.BasicBlock]AtomSet{}, 0) {
				if errPaths[a] {
					return true
				}
			}
			return false
		})
		where := ""
		if bad != nil {
			where = p.ipos(bad)
		}
		c.check(rule, "newStream:teardown-on-every-path", bad == nil, "after a successful NewStreamReadWriter the path to "+where+" returns without calling teardown or handing it to client.NewStream: the registry entry (and its channel) is never released — one leaked registration per failed open", p.ipos(call), where)
	}
	// (d) client.NewStream: the teardown parameter is invoked unconditionally inside the stream's teardown closure
	cns := p.MustFn("client.NewStream")
	tdc := p.teardownClosure()
	var inner ssa.Instruction
	allInstrs(tdc, func(i ssa.Instruction) {
		if cl, ok := i.(*ssa.Call); ok && !cl.Call.IsInvoke() && cl.Call.StaticCallee() == nil {
			v := cl.Call.Value
			if ld, ok := v.(*ssa.UnOp); ok && ld.Op == token.MUL {
				v = ld.X
			}
			if fv, ok := v.(*ssa.FreeVar); ok {
				// the multiplexer's teardown: the func() parameter of client.NewStream captured by the closure
				isTd := fv.Name() == "teardown"
				for _, b := range p.freeVarBindings(fv) {
					if al, isAl := b.(*ssa.Alloc); isAl {
						for _, st := range p.cellStores(al) {
							if pr, isP := st.Val.(*ssa.Parameter); isP && pr.Parent() == cns && typeKey(pr.Type()) == "func()" {
								isTd = true
							}
						}
					}
					if pr, isP := b.(*ssa.Parameter); isP && pr.Parent() == cns && typeKey(pr.Type()) == "func()" {
						isTd = true
					}
				}
				if isTd {
					inner = i
				}
			}
		}
	})
	okInner := inner != nil && p.mustPass(tdc.Blocks[0].Instrs[0], func(i ssa.Instruction) bool { return i == inner }, false) == nil
	c.check(rule, "NewStream.teardown:calls-mux-teardown", okInner, "the stream's teardown closure calls the multiplexer's teardown on every path", p.pos(tdc.Pos()))
	var g *ssa.Go
	for _, x := range p.goStmts(cns) {
		g = x
	}
	okGo := g != nil
	if okGo {
		for _, r := range returnsOf(cns) {
			if !instrDominates(g, r) {
				okGo = false
			}
		}
	}
	c.check(rule, "NewStream:read-loop-always-started", okGo, "the read loop (whose deferred block tears the stream down) is started on every path", p.pos(cns.Pos()))
}

func ruleServerRegistrationPairing(c *Ctx, rule string) {
	p := c.p
	f := p.MustFn("goat.handler.processStreamingRpc")
	n := 0
	for _, mu := range p.MapUpdates(fieldKey{"goat.handler", "streams"}) {
		if mu.Parent() != f {
			continue
		}
		n++
		isGo := func(i ssa.Instruction) bool {
			g, ok := i.(*ssa.Go)
			if !ok {
				return false
			}
			for _, t := range p.calleesOfValue(g.Call.Value, p.Origins()) {
				if p.fnKey(t) == "goat.handler.runStream" {
					return true
				}
			}
			return false
		}
		c.check(rule, "processStreamingRpc:register→go-runStream", p.mustPass(mu, isGo, true) == nil, "every path after the registry insertion starts the stream goroutine (whose first defer unregisters)", p.ipos(mu))
		// the id handed to runStream is the registered key
		for _, g := range p.goStmts(f) {
			okId := false
			for _, a := range g.Call.Args {
				if p.sameValue(a, mu.Key) {
					okId = true
				}
			}
			c.check(rule, "processStreamingRpc:go-runStream-id", okId, "runStream is given the id under which the stream was registered", p.ipos(g))
		}
	}
	c.floor(rule, "stream registrations", n, 1)
	ruleTrailerBeforeUnregister(c, rule)
}

// per-RPC queues are referenced only from the registry entry, the RPC's goroutine and its API object
func ruleQueuesDieWithRegistration(c *Ctx, rule string) {
	p := c.p
	perRPC := map[string]string{
		"makechan(chan *pb.Rpc@client.RpcMultiplexer.CallUnaryMethod#0)":     "unary reply queue",
		"makechan(chan *pb.Rpc@client.RpcMultiplexer.NewStreamReadWriter#0)": "stream inbound queue",
		"makechan(chan *pb.Body@client.NewStream#0)":                         "stream body queue",
		"makechan(chan *pb.Rpc@goat.handler.processStreamingRpc#0)":          "server stream inbound queue",
		"makechan(chan struct{}@goat.handler.processStreamingRpc#0)":         "server stream done signal",
	}
	allowed := map[string]bool{
		"client.RpcMultiplexer.handlers[]": true, "client.clientStream.rCh": true,
		"goat.streamHandler.ch": true, "goat.streamHandler.done": true, "goat.handler.streams[]": true,
	}
	found := map[string]bool{}
	e := p.Origins()
	for _, f := range p.Funcs {
		allInstrs(f, func(i ssa.Instruction) {
			var val ssa.Value
			target := ""
			switch x := i.(type) {
			case *ssa.Store:
				val = x.Val
				switch a := x.Addr.(type) {
				case *ssa.FieldAddr:
					if fk, ok := ownerKey(a); ok {
						target = fk.String()
					}
				case *ssa.Global:
					target = "global:" + globalName(a)
				case *ssa.IndexAddr:
					target = "slice-element"
				default:
					return // local cell
				}
			case *ssa.MapUpdate:
				val = x.Value
				if fk, ok := mapField(x.Map); ok {
					target = fk.String() + "[]"
				} else {
					target = "map"
				}
			default:
				return
			}
			if _, isChan := val.Type().Underlying().(*types.Chan); !isChan {
				if typeKey(val.Type()) != "goat.streamHandler" {
					return
				}
			}
			for k := range e.Of(val) {
				if what, ok := perRPC[k]; ok {
					found[k] = true
					c.check(rule, "retains:"+what+"→"+target, allowed[target], "per-RPC queue ("+what+") is stored into "+target+"; allowed holders are the registry entry and the RPC's own object", p.ipos(i))
				}
			}
		})
	}
	c.floor(rule, "per-RPC queue classes with a holder", len(found), 3)
}

func rulePerRPCGoroutinesCanExit(c *Ctx, rule string) {
	p := c.p
	rl := p.MustFn("client.clientStream.readLoop")
	n := ruleEscapable(c, rule, []*ssa.Function{rl}, nil, func(op *BlockOp, ctx ssa.Value) (bool, string) {
		return strings.HasSuffix(p.lpath(ctx), "cs.ctx"), "escape context " + p.lpath(ctx) + " (the stream context, cancelled by the stream's own teardown)"
	})
	rs := p.MustFn("goat.handler.runStream")
	rd, wr := p.rwClosures(rs)
	n += ruleEscapable(c, rule, []*ssa.Function{rs, rd, wr}, nil, func(op *BlockOp, ctx ssa.Value) (bool, string) {
		return p.lpath(ctx) == "p:ctx", "escape context " + p.lpath(ctx) + " (the context the closure is called with)"
	})
	c.floor(rule, "blocking primitives in per-RPC goroutines", n, 4)
	// the stream context is cancelled by the stream's own teardown
	tdc := p.teardownClosure()
	okCancel := false
	allInstrs(tdc, func(i ssa.Instruction) {
		if cl, ok := i.(*ssa.Call); ok && typeKey(cl.Call.Value.Type()) == "context.CancelFunc" {
			for k := range cancelCtorsOf(p.Origins().Of(cl.Call.Value)) {
				if strings.HasPrefix(k, "context.WithCancel(") {
					okCancel = true
				}
			}
		}
	})
	c.check(rule, "teardown:cancels-stream-context", okCancel, "the stream's teardown cancels the stream context (so its read loop can exit)", p.pos(tdc.Pos()))
}

// ================= C15.3 / C15.4 =================

type ownerClass struct {
	class, reason string
}

// fields with non-init stores that are not mutex-guarded: one named ordering argument each
var singleOwner = map[string]ownerClass{
	"client.clientStream.header":          {"latch", "written once under the stream lock before ready.Done; API reads after ready.Wait under the lock; unlocked reads only in the writer's own goroutine"},
	"server.serverStream.ctx":             {"config", "SetContext is documented as unsafe after first use; called once in runStream before the handler starts"},
	"goat.proxyClient.conn":               {"go-ordered", "written in connect before the `go readWrite` that starts the only readers"},
	"goat.Server.unaryInterceptor":        {"config", "server option, applied in NewServer"},
	"goat.Server.streamInterceptor":       {"config", "server option, applied in NewServer"},
	"goat.Server.statsHandlers":           {"config", "server option, applied in NewServer"},
	"goat.Server.services":                {"config", "RegisterService before Serve (gRPC contract)"},
	"goat.ClientConn.unaryInterceptor":    {"config", "dial option, applied in NewClientConn"},
	"goat.ClientConn.streamInterceptor":   {"config", "dial option, applied in NewClientConn"},
	"goat.ClientConn.statsHandlers":       {"config", "dial option, applied in NewClientConn"},
	"goat.GoatOverHttp.clock":             {"config", "option, applied in NewGoatOverHttp before the cleaner goroutine starts"},
	"goat.GoatOverHttp.connectionCleanupInterval": {"config", "option, applied in NewGoatOverHttp before the cleaner goroutine starts"},
	"goat.GoatOverHttp.connectionTimeout": {"config", "option, applied in NewGoatOverHttp before the cleaner goroutine starts"},
}

func ruleSingleOwnerFields(c *Ctx, rule string) {
	p := c.p
	guarded := map[string]bool{}
	for _, g := range p.guardTable() {
		guarded[g.owner+"."+g.field] = true
	}
	seen := map[string]bool{}
	le := p.Locks()
	for _, f := range p.Funcs {
		allInstrs(f, func(i ssa.Instruction) {
			s, ok := i.(*ssa.Store)
			if !ok {
				return
			}
			fa, ok := s.Addr.(*ssa.FieldAddr)
			if !ok {
				return
			}
			fk, ok := ownerKey(fa)
			if !ok || !isScopePath(scopePkgs[strings.SplitN(fk.owner, ".", 2)[0]]) {
				return
			}
			if isProtoMsg(fa.X.Type()) {
				return
			}
			key := fk.String()
			if p.isInitPhase(fa) || guarded[key] {
				return
			}
			if tk := typeKey(fa.Type()); tk == "sync.Mutex" {
				return
			}
			construct := p.cname(f) + ":" + key
			if seen[construct] {
				return
			}
			seen[construct] = true
			oc, known := singleOwner[key]
			if !known {
				// (a) written under some lock: consistently guarded fields are C15.1's business once tabled; here it
				// is enough that the write is not bare
				if ml := le.Must(i); len(ml) > 0 {
					c.check(rule, construct+":under-lock", true, "field not in the tables, but written with "+ml.String()+" held", p.ipos(i))
					return
				}
				// (b) written by an option closure (a function literal inside a function that returns an …Option): options
				// are applied by the constructors to the object under construction
				if isOptionClosure(f) {
					c.trivial(rule, construct+":option", true, "configuration-phase write inside an option closure (applied by the constructor before the object is shared)", p.ipos(i))
					return
				}
				c.check(rule, "NEW-CONSTRUCT:"+construct, false, "field written after construction with no mutex guard and no recorded ordering argument: conflicting accesses cannot be ordered", p.ipos(i))
				return
			}
			switch oc.class {
			case "go-ordered":
				// the write dominates the go statement that starts the readers
				okG := false
				for _, g := range p.goStmts(f) {
					if instrDominates(i, g) {
						okG = true
					}
				}
				c.check(rule, construct, okG, oc.reason, p.ipos(i))
			case "latch":
				c.check(rule, construct, le.Must(i)["client.clientStream.protected.Mutex"], oc.reason+" — write under the stream lock", p.ipos(i))
			default:
				c.trivial(rule, construct, true, "configuration-phase field (listed, not checked): "+oc.reason, p.ipos(i))
			}
		})
	}
	// clientStream.header: unlocked reads only in the writer's goroutine (readLoop and its closures)
	rl := p.MustFn("client.clientStream.readLoop")
	own := map[*ssa.Function]bool{}
	for _, g := range p.withAnons(rl) {
		own[g] = true
	}
	for _, f := range p.Funcs {
		allInstrs(f, func(i ssa.Instruction) {
			fa, ok := i.(*ssa.FieldAddr)
			if !ok {
				return
			}
			if fk, _ := ownerKey(fa); fk.String() != "client.clientStream.header" {
				return
			}
			if p.isInitPhase(fa) {
				return
			}
			locked := le.Must(i)["client.clientStream.protected.Mutex"]
			c.check(rule, p.cname(f)+":client.clientStream.header:access", locked || own[f], "access is under the stream lock or in the read loop's own goroutine", p.ipos(i))
		})
	}
	// atomic-only fields
	ruleAtomicIds(c, strings.Replace(rule, ".3", ".2", 1))
}

// C15.4 / C16.3: stores into fields of envelopes the function did not construct
func ruleReceivedEnvelopeStores(c *Ctx, rule string) {
	p := c.p
	e := p.Origins()
	n := 0
	for _, f := range p.Funcs {
		allInstrs(f, func(i ssa.Instruction) {
			s, ok := i.(*ssa.Store)
			if !ok {
				return
			}
			fa, ok := s.Addr.(*ssa.FieldAddr)
			if !ok || !isProtoMsg(fa.X.Type()) {
				return
			}
			if p.allocOfBase(fa.X) != nil || p.isLocalMsg(fa.X) {
				return // locally constructed message
			}
			n++
			fk, _ := ownerKey(fa)
			construct := p.cname(f) + ":" + fk.String()
			if p.fnKey(f) != "goat.Proxy.forwardRpc" {
				c.check(rule, construct, false, "store into a field of an envelope this function did not construct (received or shared): only the proxy's routing fields may be rewritten", p.ipos(i))
				return
			}
			switch fk.String() {
			case "pb.RequestHeader.ProxyRecord":
				o := e.Of(s.Val)
				ok2, why := o.AllMatch("append(field(ProxyRecord,field(Header,$R)),list(fieldzero(goat.Proxy.id)))", "append(field(ProxyRecord,field(Header,_)),list(_))")
				idOK := false
				if cl, isC := s.Val.(*ssa.Call); isC && len(cl.Call.Args) == 2 {
					idOK = e.Of(cl.Call.Args[1]).ContainsMatch("param(goat.NewProxy:id)")
				}
				c.check(rule, construct, ok2 && idOK && !inLoop(i.Block()), "route record is extended by exactly one append of the proxy's own name, outside any loop: "+why, p.ipos(i))
			case "pb.RequestHeader.ProxyNext":
				o := e.Of(s.Val)
				ok2, why := o.AllMatch("slice(field(ProxyNext,$H),const(0),binop(-,len(field(ProxyNext,$H)),const(1)))")
				c.check(rule, construct, ok2 && p.Facts(i).NonNil("p:rpc.Header.ProxyNext"), "return route drops its last hop, under fact ProxyNext != nil: "+why, p.ipos(i))
			default:
				c.check(rule, construct, false, "the proxy rewrites a field other than the routing fields ProxyRecord / ProxyNext", p.ipos(i))
			}
		})
	}
	c.floor(rule, "stores into received envelopes", n, 2)
	// no store to a constructed envelope after it has been handed to a queue or transport
	for _, env := range p.Envelopes() {
		for _, fn := range rpcFields {
			for _, s := range env.Fields[fn].Stores {
				for _, sk := range env.Sinks {
					if sk.Parent() == s.Parent() && sk.Block() != sk.Parent().Recover {
						if _, isRet := sk.(*ssa.Return); isRet {
							continue
						}
						after := instrDominates(sk, s) || sk.Block() != s.Block() && reachFrom(sk.Block())[s.Block()] && !reachFrom(s.Block())[sk.Block()]
						c.check(rule, "no-write-after-handoff:"+p.cname(env.Fn)+":"+fn, !after, "envelope field is not written after the envelope was handed to a transport or queue", p.ipos(s))
					}
				}
			}
		}
	}
}

// isLocalMsg: v denotes a message allocated in this function nest (including nested literals).
func (p *Prog) isLocalMsg(v ssa.Value) bool {
	for _, t := range p.Origins().Of(v) {
		if t.Op != "alloc" {
			return false
		}
	}
	return true
}

// ================= C16 =================

func ruleProxyForwardsSameEnvelopeOnce(c *Ctx, rule string) {
	p := c.p
	fw := p.MustFn("goat.Proxy.forwardRpc")
	nsend := 0
	var sends []ssa.Instruction
	for _, u := range p.chanUsesIn(fw) {
		if u.kind != "send" {
			continue
		}
		nsend++
		sends = append(sends, u.instr)
		c.check(rule, "forwardRpc:sends-the-envelope-it-was-given", p.sameValue(sendOf(u), paramNamed(fw, "rpc")), "the value enqueued for the destination is the envelope read from the source (pointer identity, no copy)", p.ipos(u.instr))
		c.check(rule, "forwardRpc:send-not-in-loop", !inLoop(u.instr.Block()), "at most one enqueue per forwarded envelope", p.ipos(u.instr))
	}
	c.floor(rule, "queue sends in forwardRpc", nsend, 1)
	for _, s := range sends {
		for _, t := range sends {
			if s != t && reachFrom(s.Block())[t.Block()] {
				c.check(rule, "forwardRpc:one-send-per-path", false, "two enqueues on one path", p.ipos(s), p.ipos(t))
			}
		}
	}
	sc := p.MustFn("goat.Proxy.serveClients")
	calls := p.callsTo(sc, "goat.Proxy.forwardRpc", false)
	okOnce := len(calls) == 1
	if okOnce {
		isCall := func(i ssa.Instruction) bool { return i == calls[0].(ssa.Instruction) }
		isRecv := func(i ssa.Instruction) bool { _, ok := i.(*ssa.Select); return ok }
		okOnce = noSecondBefore(calls[0].(ssa.Instruction), isCall, isRecv) == nil
	}
	c.check(rule, "serveClients:forward-once-per-command", okOnce, "forwardRpc is called once per command received", p.pos(sc.Pos()))
	if len(calls) == 1 {
		a := calls[0].Common().Args
		o := p.Origins().Of(a[2])
		ok, why := o.AllMatch("call(*RpcReadWriter).Read#0,...)")
		c.check(rule, "serveClients:forwards-what-the-peer-loop-read", ok, "the envelope forwarded is the one a peer read loop obtained from conn.Read: "+why, p.ipos(calls[0].(ssa.Instruction)))
		so := p.Origins().Of(a[1])
		c.check(rule, "serveClients:source-is-the-attached-name", so.ContainsMatch("param(goat.Proxy.AddClient:id)") || so.ContainsMatch("fieldzero(goat.proxyClient.id)") || len(so) > 0 && !so.ContainsMatch("field(Source,_)"), "the source name checked is the name the connection is attached under, not a field of the envelope: "+so.String(), p.ipos(calls[0].(ssa.Instruction)))
	}
}

func ruleProxyRightPeer(c *Ctx, rule string) {
	p := c.p
	fw := p.MustFn("goat.Proxy.forwardRpc")
	var lk *ssa.Lookup
	allInstrs(fw, func(i ssa.Instruction) {
		if l, ok := i.(*ssa.Lookup); ok {
			if fk, ok := mapField(l.X); ok && fk.String() == "goat.Proxy.clients" {
				lk = l
			}
		}
	})
	if lk == nil {
		panic(UnresolvedError{"lookup in Proxy.clients in forwardRpc"})
	}
	// interceptor call
	var icpt ssa.Instruction
	allInstrs(fw, func(i ssa.Instruction) {
		if cl, ok := i.(*ssa.Call); ok && p.callbackField(cl.Call.Value) == "goat.Proxy.rpcIntercepter" {
			icpt = i
		}
	})
	if icpt == nil {
		panic(UnresolvedError{"interceptor call in forwardRpc"})
	}
	// key alternatives
	var alts []ssa.Value
	if ph, ok := lk.Index.(*ssa.Phi); ok {
		seenAlt := map[ssa.Value]bool{}
		for _, ed := range ph.Edges {
			if !seenAlt[ed] {
				seenAlt[ed] = true
				alts = append(alts, ed)
			}
		}
	} else {
		alts = []ssa.Value{lk.Index}
	}
	nd, nn := 0, 0
	for _, a := range alts {
		lp := p.lpath(a)
		switch {
		case lp == "p:rpc.Header.Destination":
			nd++
			ld := a.(ssa.Instruction)
			after := !reachFrom(ld.Block())[icpt.Block()] || ld.Block() == icpt.Block() && instrIndex(ld) > instrIndex(icpt)
			c.check(rule, "forwardRpc:destination-read-after-rewrite", after, "the destination is read after the address-rewriting interceptor ran (reading it before ignores the configured translation)", p.ipos(ld))
		case strings.HasPrefix(lp, "p:rpc.Header.ProxyNext[]"):
			nn++
			ld := a.(ssa.Instruction)
			okIdx := false
			if u, ok := a.(*ssa.UnOp); ok {
				if ia, ok := u.X.(*ssa.IndexAddr); ok {
					okIdx = p.Origins().Of(ia.Index).ContainsMatch("binop(-,len(field(ProxyNext,_)),const(1))")
				}
			}
			c.check(rule, "forwardRpc:return-route-last-hop", okIdx && p.Facts(ld).NonNil("p:rpc.Header.ProxyNext"), "with a return route the destination is its last hop, under fact ProxyNext != nil", p.ipos(ld))
		default:
			c.check(rule, "forwardRpc:destination-origin", false, "lookup key may be "+lp+": neither the (rewritten) header destination nor the last return-route hop", p.ipos(lk))
		}
	}
	c.check(rule, "forwardRpc:destination-alternatives", nd == 1 && nn <= 1, fmt.Sprintf("key alternatives: %d header destination, %d return-route hop", nd, nn), p.ipos(lk))
	// the send goes to the entry looked up or to the one created for the same key, creation only when absent, one critical section
	le := p.Locks()
	for _, u := range p.chanUsesIn(fw) {
		if u.kind != "send" {
			continue
		}
		// channel = client.fromServer where client = phi(lookup result, addOutgoingConnectionLocked(key))
		okCl := false
		var clv ssa.Value
		if ld, ok := u.ch.(*ssa.UnOp); ok {
			if fa, ok := ld.X.(*ssa.FieldAddr); ok && fieldName(fa) == "fromServer" {
				clv = fa.X
			}
		}
		if ph, ok := clv.(*ssa.Phi); ok {
			okCl = true
			for _, ed := range ph.Edges {
				switch x := ed.(type) {
				case *ssa.Extract:
					if x.Tuple != ssa.Value(lk) {
						okCl = false
					}
				case *ssa.Call:
					if x.Call.StaticCallee() == nil || p.fnKey(x.Call.StaticCallee()) != "goat.Proxy.addOutgoingConnectionLocked" || !p.sameValue(x.Call.Args[1], lk.Index) {
						okCl = false
					} else {
						fs := p.Facts(x)
						if !fs.False(p.lpath(extractOf(lk, 1))) || !le.Must(x)["goat.Proxy.mutex"] || !le.Must(lk)["goat.Proxy.mutex"] {
							okCl = false
						}
					}
				default:
					okCl = false
				}
			}
		}
		c.check(rule, "forwardRpc:send-target", okCl, "the envelope goes to the peer record looked up under the key, or to the one created for that same key when absent, within one critical section", p.ipos(u.instr))
	}
	// creation registers under the key it was asked for
	ao := p.MustFn("goat.Proxy.addOutgoingConnectionLocked")
	for _, mu := range p.MapUpdates(fieldKey{"goat.Proxy", "clients"}) {
		if mu.Parent() == ao {
			c.check(rule, "addOutgoingConnectionLocked:key", p.sameValue(mu.Key, paramNamed(ao, "id")), "the dialled peer is registered under the requested name", p.ipos(mu))
		}
	}
}

func ruleProxyOrder(c *Ctx, rule string) {
	p := c.p
	rulePipeline(c, rule, func(q queueSpec) bool { return strings.HasPrefix(q.name, "proxy.") }, false)
	// one forwarding loop: serveClients is not started by a go statement in a loop and has one caller
	sc := p.MustFn("goat.Proxy.serveClients")
	callers := p.Callers(sc)
	ok := len(callers) == 1
	for _, cs := range callers {
		if _, isGo := cs.instr.(*ssa.Go); isGo || inLoop(cs.instr.Block()) {
			ok = false
		}
	}
	c.check(rule, "serveClients:single-instance", ok, fmt.Sprintf("%d call sites of the forwarding loop, none a goroutine start or in a loop (several forwarding loops would reorder a source–destination pair)", len(callers)), p.pos(sc.Pos()))
	// one write loop / read loop per peer: each started exactly once by readWrite, readWrite started once per peer record
	rw := p.MustFn("goat.proxyClient.readWrite")
	for _, name := range []string{"goat.proxyClient.readLoop", "goat.proxyClient.writeLoop"} {
		n := 0
		for _, f := range p.Funcs {
			n += len(p.callsTo(f, name+" ", false))
		}
		c.check(rule, name+":single-start", n == 1, fmt.Sprintf("%d call sites", n), p.pos(rw.Pos()))
	}
	var starts []string
	for _, gs := range p.GoSites() {
		for _, t := range gs.Targets {
			if t == rw {
				starts = append(starts, p.fnKey(gs.In))
				c.check(rule, "readWrite:start:"+p.fnKey(gs.In), !gs.InLoop, "peer loops are started once per peer record", p.ipos(gs.Instr))
			}
		}
	}
	sort.Strings(starts)
	c.check(rule, "readWrite:start-sites", strings.Join(starts, ",") == "goat.Proxy.AddClient,goat.proxyClient.connect", "peer loops are started by AddClient (attached peers) and connect (dialled peers): "+strings.Join(starts, ","))
}

func ruleProxyNoDiscard(c *Ctx, rule string) {
	p := c.p
	n := 0
	for _, f := range p.Funcs {
		if !strings.HasPrefix(p.fnKey(rootFn(f)), "goat.Proxy.") && !strings.HasPrefix(p.fnKey(rootFn(f)), "goat.proxyClient.") {
			continue
		}
		allInstrs(f, func(i ssa.Instruction) {
			sel, ok := i.(*ssa.Select)
			if !ok || sel.Blocking {
				return
			}
			for _, st := range sel.States {
				if st.Dir == types.SendOnly {
					n++
					c.check(rule, p.cname(f)+":non-blocking-send:"+p.chanDesc(st.Chan), false,
						"non-blocking enqueue whose default branch discards the envelope: a stream relayed through a full per-destination buffer loses messages and still ends with a clean io.EOF", p.ipos(i))
				}
			}
		})
	}
	if n == 0 {
		c.check(rule, "proxy:no-discard-site", true, "no non-blocking enqueue with a dropping default branch in the proxy")
	}
}

var _ = token.MUL

// isOptionClosure: f is a function literal nested in a function whose result type is named …Option.
func isOptionClosure(f *ssa.Function) bool {
	if f.Parent() == nil {
		return false
	}
	r := rootFn(f)
	res := r.Signature.Results()
	if res.Len() != 1 {
		return false
	}
	return strings.HasSuffix(typeKey(res.At(0).Type()), "Option")
}

// ruleConsistentLocking (C15.6): static Eraser over every field of the goat-owned structs that is not in a table:
// if some non-init access to a field happens with a lock in its must-lockset and another non-init access to the same
// field happens with no lock at all, the locking discipline for that field is inconsistent (the unlocked access can
// race with the locked ones). Fields whose every access is lock-free are the tables' business (C15.3).
func ruleConsistentLocking(c *Ctx, rule string) {
	p := c.p
	le := p.Locks()
	tabled := map[string]bool{}
	for _, g := range p.guardTable() {
		tabled[g.owner+"."+g.field] = true
	}
	for k := range singleOwner {
		tabled[k] = true
	}
	type acc struct {
		i      ssa.Instruction
		locks  LockSet
		write  bool
		fn     *ssa.Function
	}
	fields := map[string][]acc{}
	for _, f := range p.Funcs {
		allInstrs(f, func(i ssa.Instruction) {
			fa, ok := i.(*ssa.FieldAddr)
			if !ok || isProtoMsg(fa.X.Type()) {
				return
			}
			fk, ok := ownerKey(fa)
			if !ok || !isScopePath(scopePkgs[strings.SplitN(fk.owner, ".", 2)[0]]) {
				return
			}
			key := fk.String()
			if tabled[key] || p.isInitPhase(fa) {
				return
			}
			tk := typeKey(fa.Type())
			if tk == "sync.Mutex" || tk == "sync.WaitGroup" || strings.HasPrefix(tk, "atomic.") || strings.HasPrefix(tk, "struct{") {
				return
			}
			w := false
			if refs := fa.Referrers(); refs != nil {
				for _, r := range *refs {
					if s, ok := r.(*ssa.Store); ok && s.Addr == fa {
						w = true
					}
				}
			}
			fields[key] = append(fields[key], acc{i, le.Must(i), w, f})
		})
	}
	n := 0
	for _, key := range sortedKeys(fields) {
		as := fields[key]
		var locked, bare *acc
		anyWrite := false
		for k := range as {
			a := &as[k]
			if a.write {
				anyWrite = true
			}
			if len(a.locks) > 0 && locked == nil {
				locked = a
			}
			if len(a.locks) == 0 && bare == nil {
				bare = a
			}
		}
		if !anyWrite || locked == nil {
			continue // immutable after construction, or never locked: not this rule's business
		}
		n++
		ok := bare == nil
		detail := fmt.Sprintf("%d accesses, all with a lock held", len(as))
		var pos []string
		if !ok {
			detail = fmt.Sprintf("field is accessed under %s in %s but with no lock in %s: inconsistent locking discipline", locked.locks, p.cname(locked.fn), p.cname(bare.fn))
			pos = []string{p.ipos(locked.i), p.ipos(bare.i)}
		}
		c.check(rule, "consistent-locking:"+key, ok, detail, pos...)
	}
	c.inv("fields_examined_for_consistent_locking", len(fields))
	if n == 0 {
		c.trivial(rule, "consistent-locking:none", true, "no untabled field is both written after construction and accessed under a lock")
	}
}
