#!/bin/bash
# usage: mkrename.sh <variant-name> <old> <new> [<old> <new>...] — benign variant renaming identifiers (word-boundary, all
# non-generated .go files incl. tests); builds, runs the suite, files it under seeded/<variant-name>.
set -eu
export GOFLAGS=-mod=mod GOPROXY=off GOSUMDB=off GOTOOLCHAIN=local
unset GOWORK
name=$1; shift
d=$(mktemp -d /tmp/goatren.XXXXXX)
rsync -a --exclude .git /repo/ $d/a/
rsync -a --exclude .git /repo/ $d/b/
desc=""
while [ $# -ge 2 ]; do
  old=$1; new=$2; shift 2; desc="$desc $old→$new"
  find $d/b -name '*.go' -not -path '*/gen/*' -not -path '*/goatorepo/*' | xargs perl -pi -e "s/\\b$old\\b/$new/g"
done
(cd $d/b && go build ./... && go vet ./... >/dev/null 2>&1 || true)
(cd $d/b && go build ./... ) || { echo "VARIANT DOES NOT BUILD"; rm -rf $d; exit 4; }
tests="PINNED SUITE FAILS"
for t in 1 2; do if (cd $d/b && go test -vet=off -count=1 -timeout 180s ./... >/dev/null 2>&1); then tests="suite (with the same rename applied to test files) passes"; break; fi; done
mkdir -p /verif/seeded/$name
(cd $d && diff -ruN a b > /verif/seeded/$name/patch.diff) || true
python3 - "$name" "$desc" "$tests" <<'PY'
import json,sys
name,desc,tests=sys.argv[1:4]
json.dump({"id":name,"kind":"benign","property":"ALL","expect":[],"also_properties":[],
 "breaks":"nothing: pure rename"+desc,"needs_to_manifest":"n/a","origin":"hand-written rename of the current tree",
 "ran":"go build ./... ok; "+tests},open(f"/verif/seeded/{name}/meta.json","w"),indent=1)
PY
echo "$name: $tests"
rm -rf $d
