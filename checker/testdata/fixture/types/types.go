package types

import (
	"context"

	goatorepo "github.com/avos-io/goat/gen/goatorepo"
)

type RpcReadWriter interface {
	Read(context.Context) (*goatorepo.Rpc, error)
	Write(context.Context, *goatorepo.Rpc) error
}
