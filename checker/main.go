package main

import (
	"encoding/json"
	"fmt"
	"os"
	"strings"

	"golang.org/x/tools/go/ssa"
)

func main() {
	if len(os.Args) < 2 {
		fmt.Fprintln(os.Stderr, "usage: goatcheck <Cnn|all> <quick|thorough> | goatcheck debug <cmd> ...")
		os.Exit(2)
	}
	repo := os.Getenv("GOAT_REPO")
	if repo == "" {
		repo = "/repo"
	}
	if os.Args[1] == "debug" {
		debugMain(repo, os.Args[2:])
		return
	}
	os.Exit(runChecks(repo, os.Args[1:]))
}

func debugMain(repo string, args []string) {
	if args[0] == "inventory" {
		os.Setenv("GOATCHECK_NO_RENAME", "1")
		p := loadProg(repo, "", "")
		b, _ := json.MarshalIndent(inventoryOf(p.Pkgs), "", " ")
		fmt.Println(string(b))
		return
	}
	p := loadProg(repo, "", "")
	switch args[0] {
	case "renames":
		for _, r := range p.Renames {
			fmt.Println(r)
		}
		for _, r := range p.Inlined {
			fmt.Println(r)
		}
	case "funcs":
		for _, f := range p.Funcs {
			fmt.Println(p.fnKey(f), p.pos(f.Pos()))
		}
	case "ssa":
		f := p.fnByKey(args[1])
		if f == nil {
			fmt.Println("no such function")
			return
		}
		f.WriteTo(os.Stdout)
	case "envelopes":
		for _, e := range p.Envelopes() {
			fmt.Println(e.Key, e.Side, p.ipos(e.At()), "sinks:", len(e.Sinks))
			for _, f := range rpcFields {
				if fs := e.Fields[f]; len(fs.Stores) > 0 {
					fmt.Printf("    %-8s must=%v nil?=%v %s\n", f, fs.Must, fs.MaybeNil, fs.Origins)
				}
			}
			for _, f := range hdrFields {
				if e.HFields != nil {
					if fs := e.HFields[f]; len(fs.Stores) > 0 {
						fmt.Printf("    H.%-11s must=%v %s\n", f, fs.Must, fs.Origins)
					}
				}
			}
		}
	case "origins":
		// origins of every call argument and store value in a function
		f := p.fnByKey(args[1])
		e := p.Origins()
		allInstrs(f, func(i ssa.Instruction) {
			switch x := i.(type) {
			case *ssa.Store:
				fmt.Printf("%s store %s <- %s\n", p.ipos(i), x.Addr.Name(), e.Of(x.Val))
			case *ssa.Return:
				for k, r := range x.Results {
					fmt.Printf("%s return[%d] %s\n", p.ipos(i), k, e.Of(r))
				}
			case ssa.CallInstruction:
				cc := x.Common()
				var as []string
				for _, a := range cc.Args {
					as = append(as, e.Of(a).String())
				}
				fmt.Printf("%s call %s %s(%s)\n", p.ipos(i), cc.Value.Name(), calleeName(cc), strings.Join(as, "; "))
			case *ssa.Send:
				fmt.Printf("%s send %s <- %s\n", p.ipos(i), e.Of(x.Chan), e.Of(x.X))
			}
		})
	}
}
