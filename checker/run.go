package main

import (
	"fmt"
	"os"
	"sort"
	"strings"
	"time"
)

var specs = map[string]*propSpec{}

func register(s *propSpec) { specs[s.id] = s }

func runOne(p *Prog, spec *propSpec, thorough bool) *Ctx {
	c := &Ctx{p: p, prop: spec.id}
	spec.run(c, thorough)
	return c
}

func obKeySet(c *Ctx) map[string]string {
	m := map[string]string{}
	for _, o := range c.obs {
		m[o.Rule+"|"+o.Construct] = o.Status
	}
	return m
}

func runChecks(repo string, args []string) (code int) {
	start := time.Now()
	defer func() {
		if r := recover(); r != nil {
			if b, ok := r.(BrokenError); ok {
				fmt.Printf("BROKEN: %s\n", b.msg)
				code = 2
				return
			}
			panic(r)
		}
	}()
	if len(args) < 1 {
		fmt.Fprintln(os.Stderr, "usage: goatcheck Cnn [quick|thorough]")
		return 2
	}
	id := args[0]
	tier := "quick"
	if len(args) > 1 {
		tier = args[1]
	}
	if t := os.Getenv("VERIF_TIER"); t != "" && len(args) < 2 {
		tier = t
	}
	if tier == "replay" {
		tier = "quick"
	}
	var ids []string
	if id == "all" {
		for k := range specs {
			ids = append(ids, k)
		}
		sort.Strings(ids)
	} else {
		if specs[id] == nil {
			fmt.Fprintf(os.Stderr, "unknown property %s\n", id)
			return 2
		}
		ids = []string{id}
	}
	p := loadProg(repo, "", "")
	runPositiveControls()
	worst := 0
	for _, pid := range ids {
		t0 := time.Now()
		if len(ids) == 1 {
			t0 = start
		}
		spec := specs[pid]
		c := runOne(p, spec, tier == "thorough")
		extra := map[string]any{}
		if tier == "thorough" {
			// (a) the verdict must not depend on the build configuration
			var cfgs []any
			for _, cfg := range [][2]string{{"verif", ""}, {"", "386"}} {
				p2 := loadProg(repo, cfg[0], cfg[1])
				c2 := runOne(p2, spec, true)
				a, b := obKeySet(c), obKeySet(c2)
				diff := []string{}
				for k, v := range a {
					if b[k] != v {
						diff = append(diff, fmt.Sprintf("%s: default=%s tags=%q goarch=%q=%s", k, v, cfg[0], cfg[1], b[k]))
					}
				}
				for k, v := range b {
					if _, ok := a[k]; !ok {
						diff = append(diff, fmt.Sprintf("%s: only under tags=%q goarch=%q (%s)", k, cfg[0], cfg[1], v))
					}
				}
				sort.Strings(diff)
				cfgs = append(cfgs, map[string]any{"tags": cfg[0], "goarch": cfg[1], "obligations": len(c2.obs), "differences": diff})
				if len(diff) > 0 {
					c.undecided(pid+".cfg", "build-configuration", "verdict differs between build configurations: "+strings.Join(diff, "; "))
				}
			}
			extra["build_configurations"] = cfgs
			extra["seeded_variants"] = runSeededCorpus(pid, repo)
			if sv, ok := extra["seeded_variants"].(map[string]any); ok {
				if missed, _ := sv["missed"].([]string); len(missed) > 0 {
					c.undecided(pid+".corpus", "seeded-variants", "checker self-test: seeded breaking variants not reported: "+strings.Join(missed, ", "))
				}
				if fa, _ := sv["false_alarms"].([]string); len(fa) > 0 {
					c.undecided(pid+".corpus", "benign-variants", "checker self-test: benign variants reported: "+strings.Join(fa, ", "))
				}
			}
		}
		rc := finish(c, spec, tier, t0, extra)
		if rc > worst {
			worst = rc
		}
	}
	return worst
}
