package main

import (
	"encoding/json"
	"fmt"
	"os"
	"path/filepath"
	"runtime/debug"
	"sort"
	"strconv"
	"strings"
	"time"
)

type Ob struct {
	Rule       string   `json:"rule"`
	Construct  string   `json:"construct"`
	Status     string   `json:"status"` // pass | violation | known | undecided
	Detail     string   `json:"detail"`
	Pos        []string `json:"pos,omitempty"`
	NonTrivial bool     `json:"nontrivial"`
}

type Ctx struct {
	p         *Prog
	prop      string
	obs       []Ob
	inventory map[string]any
	notes     []string
	observations []string
}

func (c *Ctx) add(rule, construct, status, detail string, nontrivial bool, pos []string) {
	c.obs = append(c.obs, Ob{Rule: rule, Construct: construct, Status: status, Detail: detail, Pos: pos, NonTrivial: nontrivial})
}

// check records one decided obligation; decisions that needed a path, lockset, provenance chain
// or call-graph step are non-trivial (nt=true).
func (c *Ctx) check(rule, construct string, ok bool, detail string, pos ...string) bool {
	st := "pass"
	if !ok {
		st = "violation"
	}
	c.add(rule, construct, st, detail, true, pos)
	return ok
}

func (c *Ctx) trivial(rule, construct string, ok bool, detail string, pos ...string) bool {
	st := "pass"
	if !ok {
		st = "violation"
	}
	c.add(rule, construct, st, detail, false, pos)
	return ok
}

func (c *Ctx) undecided(rule, construct, detail string, pos ...string) {
	c.add(rule, construct, "undecided", detail, true, pos)
}

// floor: a rule matching fewer instances than confirmed by hand never passes silently.
func (c *Ctx) floor(rule, what string, got, want int) bool {
	if got < want {
		c.undecided(rule, "floor:"+what, fmt.Sprintf("matched %d instances of %s, floor is %d (a rule that matches nothing must not pass)", got, what, want))
		return false
	}
	c.add(rule, "floor:"+what, "pass", fmt.Sprintf("%d instances of %s (floor %d)", got, what, want), false, nil)
	return true
}

func (c *Ctx) inv(k string, v any) {
	if c.inventory == nil {
		c.inventory = map[string]any{}
	}
	c.inventory[k] = v
}

// guard runs a rule body; an unresolved anchor makes the rule undecided (which fails), never silent.
func (c *Ctx) guard(rule string, body func()) {
	defer func() {
		if r := recover(); r != nil {
			switch e := r.(type) {
			case UnresolvedError:
				c.undecided(rule, "anchor", "UNDECIDED "+e.Error())
			case BrokenError:
				panic(e)
			default:
				c.undecided(rule, "checker-panic", fmt.Sprintf("checker panic: %v\n%s", r, firstLines(string(debug.Stack()), 14)))
			}
		}
	}()
	body()
}

func firstLines(s string, n int) string {
	l := strings.Split(s, "\n")
	if len(l) > n {
		l = l[:n]
	}
	return strings.Join(l, "\n")
}

// ---- known findings ----

type Finding struct {
	Property  string `json:"property"`
	Rule      string `json:"rule"`
	Construct string `json:"construct"`
	WhatFails string `json:"what_fails"`
	Status    string `json:"status"` // open | fixed
	Commit    string `json:"commit,omitempty"`
	ID        string `json:"id,omitempty"`
}

func loadFindings(verifDir string) []Finding {
	b, err := os.ReadFile(filepath.Join(verifDir, "known_findings.json"))
	if err != nil {
		return nil
	}
	var f struct {
		Findings []Finding `json:"findings"`
	}
	if err := json.Unmarshal(b, &f); err != nil {
		broken("known_findings.json: %v", err)
	}
	return f.Findings
}

// ---- evidence ----

type propSpec struct {
	id          string
	explanation string
	ruleText    string
	assumptions []string
	run         func(c *Ctx, thorough bool)
}

func verifDir() string {
	if d := os.Getenv("VERIF_DIR"); d != "" {
		return d
	}
	return "/verif"
}

func finish(c *Ctx, spec *propSpec, tier string, start time.Time, extra map[string]any) int {
	vd := verifDir()
	findings := loadFindings(vd)
	nviol, nknown, npass, nund, nontriv := 0, 0, 0, 0, 0
	distinct := map[string]bool{}
	var lines []string
	var violObs []Ob
	for i := range c.obs {
		o := &c.obs[i]
		if o.Status == "violation" {
			for _, f := range findings {
				if f.Status == "open" && f.Property == c.prop && f.Rule == o.Rule && f.Construct == o.Construct {
					o.Status = "known"
					lines = append(lines, fmt.Sprintf("KNOWN-FINDING: property=%s %s %s — %s", c.prop, o.Rule, o.Construct, f.WhatFails))
				}
			}
		}
		switch o.Status {
		case "pass":
			npass++
		case "known":
			nknown++
		case "violation":
			nviol++
			violObs = append(violObs, *o)
		case "undecided":
			nund++
			violObs = append(violObs, *o)
		}
		if o.NonTrivial && !distinct[o.Rule+"|"+o.Construct] {
			distinct[o.Rule+"|"+o.Construct] = true
			nontriv++
		}
	}
	sort.Strings(lines)
	for _, l := range lines {
		fmt.Println(l)
	}
	for _, rn := range c.p.Renames {
		fmt.Println("NOTE renamed identifier analysed under its frozen name: " + rn)
	}
	for _, rn := range c.p.Inlined {
		fmt.Println("NOTE " + rn)
	}
	// per-rule summary
	type rs struct{ pass, known, viol, und int }
	per := map[string]*rs{}
	for _, o := range c.obs {
		r := per[o.Rule]
		if r == nil {
			r = &rs{}
			per[o.Rule] = r
		}
		switch o.Status {
		case "pass":
			r.pass++
		case "known":
			r.known++
		case "violation":
			r.viol++
		case "undecided":
			r.und++
		}
	}
	var rules []string
	for r := range per {
		rules = append(rules, r)
	}
	sort.Slice(rules, func(i, j int) bool { return ruleLess(rules[i], rules[j]) })
	perRule := map[string]any{}
	for _, r := range rules {
		x := per[r]
		fmt.Printf("%-8s obligations=%d pass=%d known=%d violation=%d undecided=%d\n", r, x.pass+x.known+x.viol+x.und, x.pass, x.known, x.viol, x.und)
		perRule[r] = map[string]int{"pass": x.pass, "known_finding": x.known, "violation": x.viol, "undecided": x.und}
	}
	for _, o := range violObs {
		fmt.Printf("%s %s %s: %s %s\n", strings.ToUpper(o.Status), o.Rule, o.Construct, o.Detail, strings.Join(o.Pos, " "))
	}
	// samples: a few non-trivial obligations written out in full
	var samples []any
	seenRule := map[string]int{}
	for _, o := range c.obs {
		if o.NonTrivial && seenRule[o.Rule] < 2 && len(samples) < 24 {
			seenRule[o.Rule]++
			samples = append(samples, o)
		}
	}
	if len(samples) == 0 {
		for _, o := range c.obs {
			samples = append(samples, o)
			break
		}
	}
	seed, _ := strconv.Atoi(os.Getenv("VERIF_SEED"))
	cov := map[string]any{
		"explanation":         spec.explanation,
		"rule":                spec.ruleText,
		"evaluations":         len(c.obs),
		"distinct_nontrivial": nontriv,
		"obligations":         len(c.obs),
		"discharged":          npass,
		"known_findings":      nknown,
		"violations":          nviol,
		"undecided":           nund,
		"per_rule":            perRule,
		"samples":             samples,
		"inventory":           c.inventory,
		"observations":        c.observations,
		"analysed": map[string]any{
			"packages_loaded":    c.p.nPackages,
			"functions_in_scope": len(c.p.Funcs),
			"repo":               c.p.Dir,
		},
		"exhaustive": true,
		"checker_cmd": "/verif/bin/check " + c.prop + " " + tier,
	}
	cov["positive_controls"] = controlsSummary
	if len(c.p.Renames) > 0 {
		cov["normalised_renames"] = c.p.Renames
	}
	if len(c.p.Inlined) > 0 {
		cov["normalised_helpers"] = c.p.Inlined
	}
	for k, v := range extra {
		cov[k] = v
	}
	ev := map[string]any{
		"property_id": c.prop,
		"tier":        tier,
		"seed":        seed,
		"level":       "other",
		"coverage":    cov,
		"assumptions": spec.assumptions,
		"wall_s":      time.Since(start).Seconds(),
		"violations":  nviol + nund,
	}
	os.MkdirAll(filepath.Join(vd, "evidence"), 0o755)
	b, _ := json.MarshalIndent(ev, "", " ")
	if err := os.WriteFile(filepath.Join(vd, "evidence", c.prop+".json"), b, 0o644); err != nil {
		broken("cannot write evidence: %v", err)
	}
	replay := filepath.Join(vd, "evidence", c.prop+".violation.json")
	if nviol+nund > 0 {
		vb, _ := json.MarshalIndent(map[string]any{"property": c.prop, "tier": tier, "violated_obligations": violObs}, "", " ")
		os.WriteFile(replay, vb, 0o644)
		fmt.Printf("VIOLATION property=%s replay=%s\n", c.prop, replay)
		return 1
	}
	os.Remove(replay)
	fmt.Printf("OK property=%s tier=%s obligations=%d discharged=%d known_findings=%d\n", c.prop, tier, len(c.obs), npass, nknown)
	return 0
}

func ruleLess(a, b string) bool {
	pa, pb := strings.SplitN(a, ".", 2), strings.SplitN(b, ".", 2)
	if pa[0] != pb[0] {
		return pa[0] < pb[0]
	}
	if len(pa) < 2 || len(pb) < 2 {
		return a < b
	}
	na, ea := strconv.Atoi(strings.TrimRight(pa[1], "abcdefghijklmnopqrstuvwxyz"))
	nb, eb := strconv.Atoi(strings.TrimRight(pb[1], "abcdefghijklmnopqrstuvwxyz"))
	if ea == nil && eb == nil && na != nb {
		return na < nb
	}
	return a < b
}
