#!/bin/bash
# usage: fixcommit.sh "<commit message starting with fix:>"  — builds, runs the pinned suite 3x (+ once with -race), commits /repo.
# The pinned suite has a pre-existing rare flake (internal/client TestRecvMsg registers a mock expectation after the
# stream's read loop has started); a failing run is retried once before giving up.
set -eu -o pipefail
export GOFLAGS=-mod=mod GOPROXY=off GOSUMDB=off GOTOOLCHAIN=local
unset GOWORK
cd /repo
go build ./...
run() { go test "$@" -vet=off -count=1 -timeout 120s ./... 2>&1 | grep -v "no test files"; }
for i in 1 2 3; do run || { echo "RETRY"; run; }; done
run -race || { echo "RETRY"; run -race; }
git add -A
git commit -qm "$1"
git log --oneline | head -1
