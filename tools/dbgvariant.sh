#!/bin/bash
# usage: dbgvariant.sh <variant> [goatcheck debug args…] — scratch copy with the variant applied; prints the renames / spliced
# helpers (default) or runs the given goatcheck debug command; GOATCHECK_DEBUG=1 keeps failing overlays under /tmp.
v=$1; shift
s=$(mktemp -d /tmp/goatdbg.XXXX); rsync -a --exclude .git /repo/ $s/; patch -p1 -s -d $s -i /verif/seeded/$v/patch.diff || echo "PATCH FAILED"
if [ $# -eq 0 ]; then set -- renames; fi
GOATCHECK_DEBUG=1 GOAT_REPO=$s /verif/bin/goatcheck debug "$@" 2>&1 | sed "s#$s/##g"
rm -rf $s
