// Package goat (positive-control fixture): each rule family has one violating and one conforming instance.
// The checker analyses this package on every run and fails (BROKEN) if the violating instance is not
// reported or the conforming one is.
package goat

import (
	"context"
	"sync"

	"github.com/avos-io/goat/gen/goatorepo"
	"github.com/avos-io/goat/types"
)

type streamHandler struct {
	ch     chan *goatorepo.Rpc
	cancel context.CancelFunc
}

type handler struct {
	ctx     context.Context
	rw      types.RpcReadWriter
	mu      sync.Mutex
	streams map[uint64]streamHandler
	out     chan *goatorepo.Rpc
}

// ---- G1: blocking under a registry lock ----

func (h *handler) badForwardUnderLock(rpc *goatorepo.Rpc) {
	h.mu.Lock()
	defer h.mu.Unlock()
	if sh, ok := h.streams[rpc.Id]; ok {
		sh.ch <- rpc // blocks with the registry lock held
	}
}

func (h *handler) goodForwardAfterUnlock(rpc *goatorepo.Rpc) {
	h.mu.Lock()
	sh, ok := h.streams[rpc.Id]
	h.mu.Unlock()
	if ok {
		select {
		case sh.ch <- rpc:
		case <-h.ctx.Done():
		}
	}
}

// ---- G3: guarded field ----

func (h *handler) badUnguardedLen() int {
	return len(h.streams) // no lock
}

func (h *handler) goodGuardedLen() int {
	h.mu.Lock()
	defer h.mu.Unlock()
	return len(h.streams)
}

// ---- G4: close / send exclusion on registry elements ----

type Demux struct {
	ctx   context.Context
	conns struct {
		sync.Mutex
		value map[string]*demuxConn
	}
}

type demuxConn struct{ r chan *goatorepo.Rpc }

func (d *Demux) closeUnderLock(id string) {
	d.conns.Lock()
	defer d.conns.Unlock()
	if c, ok := d.conns.value[id]; ok {
		close(c.r)
	}
	delete(d.conns.value, id)
}

func (d *Demux) badSendAfterUnlock(id string, rpc *goatorepo.Rpc) {
	d.conns.Lock()
	c, ok := d.conns.value[id]
	d.conns.Unlock()
	if ok {
		c.r <- rpc // may run after closeUnderLock: send on closed channel
	}
}

// ---- G5: escapability ----

func (h *handler) badBareSendLoop() {
	go func() {
		for {
			rpc, err := h.rw.Read(h.ctx)
			if err != nil {
				return
			}
			h.out <- rpc // nobody may ever receive
		}
	}()
}

func (h *handler) goodEscapableSendLoop() {
	go func() {
		for {
			rpc, err := h.rw.Read(h.ctx)
			if err != nil {
				return
			}
			select {
			case h.out <- rpc:
			case <-h.ctx.Done():
				return
			}
		}
	}()
}

// ---- G6: panic controlled by peer data ----

func (h *handler) badPanicOnPeerData() {
	rpc, err := h.rw.Read(h.ctx)
	if err != nil {
		return
	}
	if rpc.GetId() == 0 {
		panic("peer sent id 0")
	}
}

func goodPanicOnLocalArgument(n int) {
	if n > 1 {
		panic("unsupported option count")
	}
}

// ---- G7: optional sub-message nil check ----

func badDerefHeader(rpc *goatorepo.Rpc) string {
	return rpc.Header.Method // Header may be nil
}

func goodDerefHeader(rpc *goatorepo.Rpc) string {
	if rpc.Header == nil {
		return ""
	}
	return rpc.Header.Method
}

// ---- G8: cancel function dropped on a path ----

func badCancelDropped(parent context.Context, fail bool) context.Context {
	ctx, cancel := context.WithCancel(parent)
	if fail {
		return nil // cancel dropped
	}
	go func() { <-ctx.Done(); cancel() }()
	return ctx
}

func goodCancelDeferred(parent context.Context) {
	ctx, cancel := context.WithCancel(parent)
	defer cancel()
	<-ctx.Done()
}
