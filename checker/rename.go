package main

// Rename normalisation. The rules name unexported functions, methods, struct types and struct fields of the
// in-scope packages (DESIGN 2.0, 8.8). A pure rename of one of them must not unbind a rule, so the loader
// compares the declared names with the inventory frozen from the tree the rules were confirmed on
// (inventory.json, `goatcheck debug inventory`): a frozen name that is gone is matched against the names that
// are new under the same owner with the same signature / type (body fingerprints break ties); for every
// match the identifiers that resolve to the renamed object are spelt back to the frozen name in an in-memory
// overlay of the source files (go/packages Overlay — nothing is written to disk, line numbers are unchanged),
// and the program is loaded again from that overlay. Everything downstream sees the canonical names; the
// renames applied are printed and recorded in the evidence. No match (or an ambiguous one) leaves the tree as
// it is: the rule that needs the name then reports UNDECIDED, as before.

import (
	_ "embed"
	"encoding/json"
	"fmt"
	"go/ast"
	"go/token"
	"go/types"
	"os"
	"sort"
	"strings"

	"golang.org/x/tools/go/packages"
)

//go:embed inventory.json
var frozenInventoryJSON []byte

type invItem struct {
	Kind  string   `json:"kind"`  // func | method | field | type
	Pkg   string   `json:"pkg"`   // short package name
	Owner string   `json:"owner"` // receiver / struct type name ("" for funcs and types)
	Name  string   `json:"name"`
	Sig   string   `json:"sig"` // signature (funcs, methods), type (fields), kind of underlying (types)
	Fp    []string `json:"fp,omitempty"`
	// NClosures: function literals in the declaration (funcs, methods): a closure that became a named function shows
	// as a drop of this count plus a new function called only from here (inline.go turns it back)
	NClosures int `json:"closures,omitempty"`

	obj types.Object
}

func (i *invItem) key() string { return i.Kind + "|" + i.Pkg + "|" + i.Owner + "|" + i.Name }

func shortQualifier(p *types.Package) string {
	if p == nil {
		return ""
	}
	return shortPkg(p.Path())
}

// bodyFingerprint: names selected or called in a function body (syntactic).
func bodyFingerprint(body ast.Node) []string {
	if body == nil {
		return nil
	}
	set := map[string]bool{}
	ast.Inspect(body, func(n ast.Node) bool {
		switch x := n.(type) {
		case *ast.SelectorExpr:
			set[x.Sel.Name] = true
		case *ast.CallExpr:
			if id, ok := x.Fun.(*ast.Ident); ok {
				set[id.Name] = true
			}
		}
		return true
	})
	var out []string
	for k := range set {
		out = append(out, k)
	}
	sort.Strings(out)
	return out
}

// inventoryOf lists the declared functions, methods, struct types and fields of the in-scope packages.
func inventoryOf(pkgs []*packages.Package) []*invItem {
	var out []*invItem
	packages.Visit(pkgs, nil, func(pk *packages.Package) {
		if !isScopePath(pk.PkgPath) || pk.Types == nil {
			return
		}
		sp := shortPkg(pk.PkgPath)
		bodies := map[types.Object]ast.Node{}
		for _, f := range pk.Syntax {
			for _, d := range f.Decls {
				if fd, ok := d.(*ast.FuncDecl); ok && fd.Body != nil {
					if o := pk.TypesInfo.Defs[fd.Name]; o != nil {
						bodies[o] = fd.Body
					}
				}
			}
		}
		// where each field is used: names of the declared functions that mention it (tie-break for renamed fields)
		fieldUse := map[types.Object]map[string]bool{}
		for _, f := range pk.Syntax {
			for _, d := range f.Decls {
				fd, ok := d.(*ast.FuncDecl)
				if !ok || fd.Body == nil {
					continue
				}
				fname := fd.Name.Name
				if fd.Recv != nil && len(fd.Recv.List) == 1 {
					fname = types.ExprString(fd.Recv.List[0].Type) + "." + fname
				}
				ast.Inspect(fd.Body, func(m ast.Node) bool {
					if id, ok := m.(*ast.Ident); ok {
						if v, ok := pk.TypesInfo.Uses[id].(*types.Var); ok && v.IsField() {
							o := types.Object(v.Origin())
							if fieldUse[o] == nil {
								fieldUse[o] = map[string]bool{}
							}
							fieldUse[o][fname] = true
						}
					}
					return true
				})
			}
		}
		useFp := func(o types.Object) []string {
			var out []string
			for k := range fieldUse[o] {
				out = append(out, k)
			}
			sort.Strings(out)
			return out
		}
		sc := pk.Types.Scope()
		for _, n := range sc.Names() {
			switch o := sc.Lookup(n).(type) {
			case *types.Func:
				sig := o.Type().(*types.Signature)
				out = append(out, &invItem{Kind: "func", Pkg: sp, Name: n, Sig: types.TypeString(sig, shortQualifier), Fp: bodyFingerprint(bodies[o]), NClosures: countFuncLits(bodies[o]), obj: o})
			case *types.TypeName:
				if o.IsAlias() {
					continue
				}
				named, ok := o.Type().(*types.Named)
				if !ok {
					continue
				}
				var members []string
				if st, ok := named.Underlying().(*types.Struct); ok {
					var addFields func(owner string, st *types.Struct, top bool)
					addFields = func(owner string, st *types.Struct, top bool) {
						for i := 0; i < st.NumFields(); i++ {
							fl := st.Field(i)
							if fl.Embedded() {
								out = append(out, &invItem{Kind: "field", Pkg: sp, Owner: owner, Name: fl.Name(), Sig: "embedded " + types.TypeString(fl.Type(), shortQualifier), obj: fl})
								continue
							}
							if top {
								members = append(members, fl.Name())
							}
							sig := types.TypeString(fl.Type(), shortQualifier)
							if inner, ok := fl.Type().(*types.Struct); ok {
								// fields of an anonymous struct-typed field (e.g. clientStream.protected) are named by rules too
								sig = "struct{…}"
								addFields(owner+"."+fl.Name(), inner, false)
							}
							out = append(out, &invItem{Kind: "field", Pkg: sp, Owner: owner, Name: fl.Name(), Sig: sig, Fp: useFp(fl), obj: fl})
						}
					}
					addFields(n, st, true)
				}
				for i := 0; i < named.NumMethods(); i++ {
					m := named.Method(i)
					members = append(members, m.Name()+"()")
					sig := m.Type().(*types.Signature)
					out = append(out, &invItem{Kind: "method", Pkg: sp, Owner: n, Name: m.Name(), Sig: types.TypeString(sig, shortQualifier), Fp: bodyFingerprint(bodies[m]), NClosures: countFuncLits(bodies[m]), obj: m})
				}
				sort.Strings(members)
				kind := fmt.Sprintf("%T", named.Underlying())
				out = append(out, &invItem{Kind: "type", Pkg: sp, Name: n, Sig: kind, Fp: members, obj: o})
			}
		}
	})
	sort.Slice(out, func(i, j int) bool { return out[i].key() < out[j].key() })
	return out
}

func jaccard(a, b []string) float64 {
	if len(a) == 0 && len(b) == 0 {
		return 1
	}
	set := map[string]bool{}
	for _, x := range a {
		set[x] = true
	}
	inter := 0
	for _, x := range b {
		if set[x] {
			inter++
		}
	}
	union := len(a) + len(b) - inter
	if union == 0 {
		return 0
	}
	return float64(inter) / float64(union)
}

type renamePair struct {
	from *invItem // current (new name)
	to   string   // frozen name
}

func (r renamePair) String() string {
	o := r.from.Pkg + "."
	if r.from.Owner != "" {
		o += r.from.Owner + "."
	}
	return fmt.Sprintf("%s %s%s → %s", r.from.Kind, o, r.from.Name, r.to)
}

// matchRenames pairs frozen names that are gone with new names of the same owner and signature.
func matchRenames(frozen, current []*invItem) []renamePair {
	cur := map[string]*invItem{}
	for _, c := range current {
		cur[c.key()] = c
	}
	frz := map[string]*invItem{}
	for _, f := range frozen {
		frz[f.key()] = f
	}
	var pairs []renamePair
	// 1. types first: a renamed type renames the owner of its members
	ownerAlias := map[string]string{} // pkg|currentOwner → frozenOwner
	pair := func(kind string, ownerOf func(c *invItem) string, sameSig func(f, c *invItem) bool) {
		var missing, fresh []*invItem
		for _, f := range frozen {
			if f.Kind != kind {
				continue
			}
			// present under its frozen owner (possibly through an owner alias)?
			found := false
			for _, c := range current {
				if c.Kind == kind && c.Pkg == f.Pkg && ownerOf(c) == f.Owner && c.Name == f.Name {
					found = true
				}
			}
			if !found {
				missing = append(missing, f)
			}
		}
		for _, c := range current {
			if c.Kind != kind {
				continue
			}
			k := kind + "|" + c.Pkg + "|" + ownerOf(c) + "|" + c.Name
			if _, ok := frz[k]; !ok {
				fresh = append(fresh, c)
			}
		}
		type cand struct {
			m, c  *invItem
			score float64
		}
		var cands []cand
		for _, m := range missing {
			for _, c := range fresh {
				if c.Pkg == m.Pkg && ownerOf(c) == m.Owner && sameSig(m, c) {
					cands = append(cands, cand{m, c, jaccard(m.Fp, c.Fp)})
				}
			}
		}
		sort.SliceStable(cands, func(i, j int) bool { return cands[i].score > cands[j].score })
		usedM, usedC := map[*invItem]bool{}, map[*invItem]bool{}
		nFor := func(m, c *invItem) (nm, nc int) {
			for _, x := range cands {
				if x.m == m && !usedC[x.c] {
					nm++
				}
				if x.c == c && !usedM[x.m] {
					nc++
				}
			}
			return
		}
		for _, x := range cands {
			if usedM[x.m] || usedC[x.c] {
				continue
			}
			nm, nc := nFor(x.m, x.c)
			unique := nm == 1 && nc == 1
			// runner-up score among the alternatives still open
			second := -1.0
			for _, y := range cands {
				if (y.m == x.m) != (y.c == x.c) && !usedM[y.m] && !usedC[y.c] && y.score > second {
					second = y.score
				}
			}
			ok := false
			switch {
			case kind == "field":
				// fields have no body: an unambiguous type match, or clearly the same set of using functions
				ok = unique || x.score >= 0.6 && x.score-second >= 0.2
			case kind == "type":
				// member names mostly agree; or it is the only type of its kind that went and the only one that came, and the
				// method names agree
				ok = x.score >= 0.5 && x.score-second >= 0.2 || unique && x.score >= 0.3
			case unique:
				ok = x.score >= 0.25 || len(x.m.Fp) == 0
			default:
				ok = x.score >= 0.5 && x.score-second >= 0.2
			}
			if ok {
				usedM[x.m], usedC[x.c] = true, true
				pairs = append(pairs, renamePair{from: x.c, to: x.m.Name})
				if kind == "type" {
					ownerAlias[x.c.Pkg+"|"+x.c.Name] = x.m.Name
				}
			}
		}
	}
	plainOwner := func(c *invItem) string { return c.Owner }
	pair("type", plainOwner, func(f, c *invItem) bool { return f.Sig == c.Sig })
	aliasOwner := func(c *invItem) string {
		if a, ok := ownerAlias[c.Pkg+"|"+c.Owner]; ok {
			return a
		}
		return c.Owner
	}
	// signatures and field types mention renamed types by their new name: compare modulo the type renames
	norm := func(pkg, s string) string {
		for k, v := range ownerAlias {
			parts := strings.SplitN(k, "|", 2)
			s = replaceIdent(s, parts[0]+"."+parts[1], parts[0]+"."+v)
		}
		return s
	}
	pair("func", plainOwner, func(f, c *invItem) bool { return f.Sig == norm(c.Pkg, c.Sig) })
	pair("method", aliasOwner, func(f, c *invItem) bool { return f.Sig == norm(c.Pkg, c.Sig) })
	pair("field", aliasOwner, func(f, c *invItem) bool { return f.Sig == norm(c.Pkg, c.Sig) })
	return pairs
}

// replaceIdent replaces whole-identifier occurrences of old (a qualified name) in s.
func replaceIdent(s, old, new string) string {
	var b strings.Builder
	for {
		i := strings.Index(s, old)
		if i < 0 {
			b.WriteString(s)
			return b.String()
		}
		end := i + len(old)
		isId := func(c byte) bool {
			return c == '_' || c >= '0' && c <= '9' || c >= 'a' && c <= 'z' || c >= 'A' && c <= 'Z'
		}
		if (i > 0 && isId(s[i-1])) || (end < len(s) && isId(s[end])) {
			b.WriteString(s[:end])
			s = s[end:]
			continue
		}
		b.WriteString(s[:i])
		b.WriteString(new)
		s = s[end:]
	}
}

// renameOverlay spells every identifier that resolves to a renamed object back to its frozen name.
func renameOverlay(pkgs []*packages.Package, fset *token.FileSet, pairs []renamePair) (map[string][]byte, error) {
	target := map[types.Object]string{}
	for _, pr := range pairs {
		target[pr.from.obj] = pr.to
	}
	type edit struct {
		off, n int
		to     string
	}
	edits := map[string][]edit{}
	seen := map[token.Pos]bool{}
	add := func(id *ast.Ident, o types.Object) {
		if o == nil || seen[id.Pos()] {
			return
		}
		// methods and fields of instantiated generic types resolve to copies: compare origins
		switch x := o.(type) {
		case *types.Func:
			o = x.Origin()
		case *types.Var:
			o = x.Origin()
		}
		to, ok := target[o]
		if !ok {
			return
		}
		seen[id.Pos()] = true
		ps := fset.Position(id.Pos())
		edits[ps.Filename] = append(edits[ps.Filename], edit{ps.Offset, len(id.Name), to})
	}
	packages.Visit(pkgs, nil, func(pk *packages.Package) {
		if !strings.HasPrefix(pk.PkgPath, modPath) || pk.TypesInfo == nil {
			return
		}
		for id, o := range pk.TypesInfo.Defs {
			add(id, o)
		}
		for id, o := range pk.TypesInfo.Uses {
			add(id, o)
		}
	})
	out := map[string][]byte{}
	for file, es := range edits {
		src, err := os.ReadFile(file)
		if err != nil {
			return nil, err
		}
		sort.Slice(es, func(i, j int) bool { return es[i].off > es[j].off })
		for _, e := range es {
			if e.off+e.n > len(src) {
				return nil, fmt.Errorf("rename edit out of range in %s", file)
			}
			src = append(append(append([]byte{}, src[:e.off]...), e.to...), src[e.off+e.n:]...)
		}
		out[file] = src
	}
	return out, nil
}

func frozenInventory() []*invItem {
	var items []*invItem
	if err := json.Unmarshal(frozenInventoryJSON, &items); err != nil {
		broken("inventory.json: %v", err)
	}
	return items
}

func countFuncLits(n ast.Node) int {
	if n == nil {
		return 0
	}
	k := 0
	ast.Inspect(n, func(m ast.Node) bool {
		if _, ok := m.(*ast.FuncLit); ok {
			k++
		}
		return true
	})
	return k
}

// movedFields: fields of a struct that were grouped into a new nested anonymous struct field of the same struct
// (`mu`, `headers` → `protected struct{ sync.Mutex; headers … }`). Nothing is rewritten for these: field keys and
// access paths are aliased back (ownerKey, lpath). A moved field keeps its name and type; a named mutex may become
// the embedded one.
func movedFields(frozen, current []*invItem) map[fieldKey]fieldKey {
	out := map[fieldKey]fieldKey{}
	cur := map[string]*invItem{}
	for _, c := range current {
		cur[c.key()] = c
	}
	frz := map[string]bool{}
	for _, f := range frozen {
		frz[f.key()] = true
	}
	for _, f := range frozen {
		if f.Kind != "field" || cur[f.key()] != nil {
			continue
		}
		var hits []*invItem
		for _, c := range current {
			if c.Kind != "field" || c.Pkg != f.Pkg || frz[c.key()] {
				continue
			}
			// c.Owner = f.Owner + "." + <new nested field>
			if !strings.HasPrefix(c.Owner, f.Owner+".") || strings.Contains(strings.TrimPrefix(c.Owner, f.Owner+"."), ".") {
				continue
			}
			nested := &invItem{Kind: "field", Pkg: f.Pkg, Owner: f.Owner, Name: strings.TrimPrefix(c.Owner, f.Owner+".")}
			if frz[nested.key()] {
				continue // the nested struct is not new
			}
			sameName := c.Name == f.Name && c.Sig == f.Sig
			embeddedMutex := c.Sig == "embedded "+f.Sig && strings.HasPrefix(f.Sig, "sync.")
			if sameName || embeddedMutex {
				hits = append(hits, c)
			}
		}
		if len(hits) == 1 {
			c := hits[0]
			out[fieldKey{c.Pkg + "." + c.Owner, c.Name}] = fieldKey{f.Pkg + "." + f.Owner, f.Name}
		}
	}
	return out
}
