#!/usr/bin/env python3
import json, sys, subprocess
fid = sys.argv[1].split(',')
commit = sys.argv[2] if len(sys.argv) > 2 else subprocess.check_output(['git','-C','/repo','log','-1','--format=%h']).decode().strip()
p='/verif/known_findings.json'
d=json.load(open(p))
n=0
for f in d['findings']:
    if f['id'] in fid and f['status']=='open':
        f['status']='fixed'; f['commit']=commit; n+=1
json.dump(d,open(p,'w'),indent=1,ensure_ascii=False)
print('marked',n,'entries fixed at',commit)
