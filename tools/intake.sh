#!/bin/bash
# usage: intake.sh Cnn N  — independently confirms a sub-agent's change N for property Cnn in its scratch worktree,
# files it under /verif/seeded/agent-Cnn-N/ and reports which checks catch it.
set -u
export GOFLAGS=-mod=mod GOPROXY=off GOSUMDB=off GOTOOLCHAIN=local
unset GOWORK
P=$1; N=$2; R=${3:-}
wt=/tmp/wt_$P; out=$wt/_out
diff=$out/change$N.diff
[ -f "$diff" ] || { echo "no $diff"; exit 2; }
cd $wt
git checkout -q -- . ; git clean -qfd -e _out
demo=""; demodir=""
if [ -f $out/demo${N}_test.go ]; then
  demo=$out/demo${N}_test.go
  demodir=$(grep -m1 -oE 'place in: *[^ ]+' $demo | sed 's/place in: *//')
  [ -z "$demodir" ] && demodir=.
elif [ -d $out/demo$N ]; then
  demo=$out/demo$N
fi
[ -n "$demo" ] || { echo "no demonstration for change $N"; exit 2; }
run_demo() {
  if [ -f "$demo" ]; then
    cp $demo $wt/$demodir/zz_demo${N}_test.go
    tests=$(grep -oE '^func (Test[A-Za-z0-9_]+)' $demo | sed 's/func //' | paste -sd'|')
    (cd $wt/$demodir && timeout 400 go test ${RACE:-} -vet=off -count=1 -timeout 300s -run "^($tests)\$" . ) > /tmp/intake_${P}_demo.txt 2>&1; rc=$?
    rm -f $wt/$demodir/zz_demo${N}_test.go
  else
    mkdir -p $wt/cmd/zz_demo$N && cp -r $demo/* $wt/cmd/zz_demo$N/
    (cd $wt && timeout 300 go run ./cmd/zz_demo$N ) > /tmp/intake_${P}_demo.txt 2>&1; rc=$?
    rm -rf $wt/cmd/zz_demo$N
  fi
  return $rc
}
echo "== clean tree: demo must pass"
run_demo; rc_clean=$?
echo "   rc=$rc_clean"
echo "== with change"
git apply $diff || { echo "patch does not apply"; exit 3; }
nontest=$(git diff --name-only | grep -v '_test.go' | grep -v '^gen/' | wc -l)
testedit=$(git diff --name-only | grep -c '_test.go')
go build ./... > /tmp/intake_${P}_build.txt 2>&1; rc_build=$?
suite_ok=0
for try in 1 2; do
  if timeout 400 go test -vet=off -count=1 -timeout 180s ./... > /tmp/intake_${P}_suite.txt 2>&1; then suite_ok=1; break; fi
done
run_demo; rc_mut=$?
echo "   build rc=$rc_build suite_ok=$suite_ok demo rc=$rc_mut (non-test files changed: $nontest, test files edited: $testedit)"
tail -5 /tmp/intake_${P}_demo.txt | cut -c1-200
git checkout -q -- . ; git clean -qfd -e _out
verdict=REJECT
if [ $rc_clean -eq 0 ] && [ $rc_build -eq 0 ] && [ $suite_ok -eq 1 ] && [ $rc_mut -ne 0 ] && [ $testedit -eq 0 ] && [ $nontest -ge 1 ]; then verdict=CONFIRMED; fi
echo "== $P change $N: $verdict"
[ $verdict = CONFIRMED ] || exit 1
d=/verif/seeded/agent$R-$P-$N
mkdir -p $d
cp $diff $d/patch.diff
if [ -f "$demo" ]; then cp $demo $d/$(basename $demo); else cp -r $demo $d/; fi
[ -f $out/notes$N.md ] && cp $out/notes$N.md $d/notes.md
# which checks catch it (scratch copy of /repo's current tree)
s=$(mktemp -d /tmp/goatintake.XXXXXX)
rsync -a --exclude .git /repo/ $s/
patch -p1 -s --forward --no-backup-if-mismatch -d $s -i $diff || echo "NOTE: patch does not apply to /repo's current tree"
mkdir -p $s/.verif; cp /verif/known_findings.json $s/.verif/; ln -s /verif/checker $s/.verif/checker
caught=""
for i in 01 02 03 04 05 06 07 08 09 10 11 12 13 14 15 16 17 18 19 20; do
  o=$(GOAT_REPO=$s VERIF_DIR=$s/.verif /verif/bin/goatcheck C$i quick 2>&1)
  if echo "$o" | grep -q "^VIOLATION property"; then
    rules=$(echo "$o" | grep -E "^(VIOLATION|UNDECIDED) C" | awk '{print $2}' | sort -u | paste -sd',')
    caught="$caught C$i[$rules]"
    echo "$o" | grep -E "^(VIOLATION|UNDECIDED) C" | cut -c1-260 | sed 's/^/      /'
  fi
  if echo "$o" | grep -q "^BROKEN"; then caught="$caught C$i[BROKEN]"; fi
done
rm -rf $s
echo "   caught by:${caught:- NOTHING}"
python3 - "$P" "$N" "$caught" "$R" <<'PY'
import json,sys,os,re
P,N,caught,R=sys.argv[1],sys.argv[2],sys.argv[3].strip(),sys.argv[4]
d=f"/verif/seeded/agent{R}-{P}-{N}"
notes=open(d+"/notes.md").read() if os.path.exists(d+"/notes.md") else ""
own=re.search(re.escape(P)+r"\[([^\]]*)\]",caught)
expect=[r for r in (own.group(1).split(',') if own else []) if r and r!='BROKEN']
also=[m for m in re.findall(r"(C\d\d)\[",caught) if m!=P]
prim=P
if not expect and also:
    # not caught under its own property but under others: file it under the first property that reports it
    prim=also[0]
    m2=re.search(re.escape(prim)+r"\[([^\]]*)\]",caught)
    expect=[r for r in m2.group(1).split(',') if r and r!='BROKEN']
    also=also[1:]
meta={"id":f"agent{R}-{P}-{N}","kind":"breaking","property":prim,"intended_property":P,"expect":expect,"also_properties":also,
 "breaks":notes.strip().split("\n")[0][:300] if notes else "",
 "needs_to_manifest":"see notes.md",
 "origin":"independent sub-agent given only the property text and a scratch worktree",
 "ran":"tools/intake.sh: clean tree demo passes; with the change: go build ok, pinned suite passes unedited, demo fails",
 "caught_by":caught or "NOTHING (missed by the static checks at intake time)"}
if not expect: meta["kind"]="missed"
json.dump(meta,open(d+"/meta.json","w"),indent=1)
PY
