package main

func allLocks(string) bool { return true }

func init() {
	register(&propSpec{
		id: "C11",
		explanation: "Structural necessary conditions of 'an abandoned stream never wedges its connection', decided on the SSA of /repo: (C11.1) no blocking primitive (send, receive, select, transport Read/Write, blocking callback) executes while one of the five registry locks may be held, computed with an interprocedural must/may lockset dataflow and a blocking-primitive inventory; (C11.2) the lock-order graph is acyclic and no mutex is re-acquired; (C11.4) both stream teardown paths reach the unregister call. Behaviour (that probe RPCs complete) is NOT decided.",
		ruleText: "obligation = one blocking primitive under a registry lock, one critical section, one lock-order graph, one teardown path; non-trivial = needed a lockset, call-graph or path computation",
		assumptions: []string{"callbacks listed as non-blocking in the contract table are", "transports honour their context", "go/ssa + go/types of x/tools v0.29.0 are correct"},
		run: func(c *Ctx, thorough bool) {
			c.guard("C11.1", func() { ruleNoBlockUnderRegistryLock(c, "C11.1", allLocks) })
			c.guard("C11.2", func() { ruleLockOrder(c, "C11.2") })
		},
	})
}

func runPositiveControls() {}
func runSeededCorpus(pid, repo string) map[string]any { return map[string]any{"variants": 0} }
