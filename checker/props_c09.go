package main

import (
	"fmt"
	"go/types"
	"strings"

	"golang.org/x/tools/go/ssa"
)

const muxLock = "client.RpcMultiplexer.mutex"

// ---- C09.1 failure publication is atomic ----
func ruleFailurePublication(c *Ctx, rule string) {
	p := c.p
	le := p.Locks()
	f := p.MustFn("client.RpcMultiplexer.closeError")
	var rErrStore, closeI, delI ssa.Instruction
	allInstrs(f, func(i ssa.Instruction) {
		switch x := i.(type) {
		case *ssa.Store:
			if p.locPath(x.Addr) == "p:rm.rErr" {
				rErrStore = i
			}
		case *ssa.Call:
			if b, ok := x.Call.Value.(*ssa.Builtin); ok {
				if b.Name() == "close" && p.chanDesc(x.Call.Args[0]) == "handlers[]" {
					closeI = i
				}
				if b.Name() == "delete" {
					if fk, ok := mapField(x.Call.Args[0]); ok && fk.name == "handlers" {
						delI = i
					}
				}
			}
		}
	})
	if rErrStore == nil || closeI == nil || delI == nil {
		c.check(rule, "closeError:publish", false, fmt.Sprintf("closeError must store rErr (%v), close every registered channel (%v) and delete it (%v)", rErrStore != nil, closeI != nil, delI != nil), p.pos(f.Pos()))
		return
	}
	for name, i := range map[string]ssa.Instruction{"store-rErr": rErrStore, "close-element": closeI, "delete-element": delI} {
		c.check(rule, "closeError:"+name+":under-lock", le.Must(i)[muxLock], "executes with the registry mutex held: "+le.Must(i).String(), p.ipos(i))
		c.check(rule, "closeError:"+name+":on-error", p.Facts(i).NonNil("p:err"), "executes on the path with a non-nil error", p.ipos(i))
	}
	// one critical section: no unlock between the three. Publishing the error and sweeping the registry in two
	// sections lets a registration slip in between: it sees no error yet, and its channel is never closed.
	var unlocks []ssa.Instruction
	allInstrs(f, func(i ssa.Instruction) {
		if cl, ok := i.(*ssa.Call); ok {
			if k, op := lockOp(&cl.Call); op == "unlock" && k == muxLock {
				unlocks = append(unlocks, i)
			}
		}
	})
	reaches := func(a, b ssa.Instruction) bool {
		return p.pathAvoiding(f, a, func(i ssa.Instruction) bool { return i == b }, func(ssa.Instruction) bool { return false }, nil) != nil
	}
	three := []ssa.Instruction{rErrStore, closeI, delI}
	split := ""
	for _, a := range three {
		for _, b := range three {
			if a == b {
				continue
			}
			for _, u := range unlocks {
				if reaches(a, u) && reaches(u, b) {
					split = p.ipos(u)
				}
			}
		}
	}
	c.check(rule, "closeError:publish-and-sweep-in-one-section", split == "", "no unlock of the registry mutex lies between recording the error and closing / deleting the registered channels (unlock at "+split+")", p.ipos(rErrStore))
	one := p.sameSectionLookup(closeI.(*ssa.Call).Call.Args[0], closeI, muxLock)
	c.check(rule, "closeError:one-critical-section", one, "the channels closed are the ones ranged over in the same critical section", p.ipos(closeI))
	// the close is inside a range over the whole registry
	inRange := false
	if ex, ok := closeI.(*ssa.Call).Call.Args[0].(*ssa.Extract); ok {
		if nx, ok := ex.Tuple.(*ssa.Next); ok {
			if rg, ok := nx.Iter.(*ssa.Range); ok {
				if fk, ok := mapField(rg.X); ok && fk.name == "handlers" {
					inRange = true
				}
			}
		}
	}
	c.check(rule, "closeError:every-element", inRange && inLoop(closeI.Block()), "every registered channel is closed (range over the registry)", p.ipos(closeI))
	c.check(rule, "closeError:stores-the-error", p.sameValue(rErrStore.(*ssa.Store).Val, paramNamed(f, "err")), "the sticky error stored is the read loop's error", p.ipos(rErrStore))
}

// ---- C09.2 check-then-register is atomic ----
func ruleCheckThenRegister(c *Ctx, rule string) {
	p := c.p
	le := p.Locks()
	n := 0
	for _, mu := range p.MapUpdates(fieldKey{"client.RpcMultiplexer", "handlers"}) {
		n++
		f := mu.Parent()
		if p.isInitPhase2(mu.Map) {
			continue
		}
		fs := p.Facts(mu)
		base := strings.TrimSuffix(p.lpath(mu.Map), ".handlers")
		okLock := le.Must(mu)[muxLock]
		okFact := fs.IsNil(base + ".rErr")
		// the read of rErr must be in the same critical section as the insertion
		okSame := false
		if okFact {
			allInstrs(f, func(i ssa.Instruction) {
				if ld, ok := i.(*ssa.UnOp); ok && p.lpath(ld) == base+".rErr" && le.Must(i)[muxLock] && instrDominates(i, mu) {
					okSame = true
				}
			})
		}
		c.check(rule, p.fnKey(f)+":insert-under-failure-check", okLock && okFact && okSame,
			"a call is inserted into the registry without reading the sticky read error in the same critical section (facts: "+fs.String()+"): the read loop can fail and close all channels between the caller's readErrorIfDone() and this insertion; the late registration is never closed and, with a writable transport, its caller waits for ever", p.ipos(mu))
	}
	c.floor(rule, "insertions into handlers", n, 1)
}

func (p *Prog) isInitPhase2(m ssa.Value) bool {
	if ld, ok := m.(*ssa.UnOp); ok {
		if fa, ok := ld.X.(*ssa.FieldAddr); ok {
			return p.isInitPhase(fa)
		}
	}
	return false
}

// ---- C09.3 the read loop's exit is always published ----
func ruleReadLoopExitPublished(c *Ctx, rule string) {
	p := c.p
	ctor := p.MustFn("client.NewRpcMultiplexer")
	rl := p.MustFn("client.RpcMultiplexer.readLoop")
	var g *ssa.Function
	for _, gs := range p.goStmts(ctor) {
		for _, t := range p.calleesOfValue(gs.Call.Value, p.Origins()) {
			if len(p.callsTo(t, "client.RpcMultiplexer.readLoop", false)) > 0 {
				g = t
			}
		}
	}
	if g == nil {
		panic(UnresolvedError{"goroutine running the multiplexer read loop"})
	}
	rlc := p.oneCall(g, "client.RpcMultiplexer.readLoop", false)
	isPub := func(i ssa.Instruction) bool {
		if cl, ok := i.(*ssa.Call); ok && cl.Call.StaticCallee() != nil && p.fnKey(cl.Call.StaticCallee()) == "client.RpcMultiplexer.closeError" {
			return p.sameValue(cl.Call.Args[1], rlc.(*ssa.Call))
		}
		return false
	}
	c.check(rule, "NewRpcMultiplexer.go:publish", p.mustPass(rlc.(ssa.Instruction), isPub, true) == nil, "after readLoop returns, closeError is called with its error on every path", p.ipos(rlc.(ssa.Instruction)))
	for _, r := range returnsOf(rl) {
		ok, why := p.provablyNonNilErr(retVals(r)[0], r)
		c.check(rule, "readLoop:returns-only-errors", ok, "readLoop returns only with a non-nil error: "+why, p.ipos(r))
	}
	c.floor(rule, "returns of readLoop", len(returnsOf(rl)), 1)
	// the loop has no other exit
	c.check(rule, "readLoop:is-the-single-reader", len(p.transportOps(rl, "Read", false)) == 1, "one transport Read per iteration", p.pos(rl.Pos()))
}

// ---- C09.4 closed channel ⇒ error ----
func ruleClosedChannelMeansError(c *Ctx, rule string) {
	p := c.p
	rd, _ := p.rwClosures(p.MustFn("client.RpcMultiplexer.NewStreamReadWriter"))
	for _, f := range []*ssa.Function{p.MustFn("client.RpcMultiplexer.CallUnaryMethod"), rd} {
		n := 0
		allInstrs(f, func(i ssa.Instruction) {
			sel, ok := i.(*ssa.Select)
			if !ok {
				return
			}
			for si, st := range sel.States {
				if st.Dir != types.RecvOnly || p.chanDesc(st.Chan) == "Done()" {
					continue
				}
				n++
				_ = si
				okEx := extractOf(sel, 1)
				if okEx == nil {
					c.check(rule, p.fnKey(f)+":comma-ok", false, "receive from the per-call queue does not test for closure; a closed queue yields a nil envelope", p.ipos(i))
					continue
				}
				okPath := p.lpath(okEx)
				found := false
				for _, r := range returnsOf(f) {
					fs := p.Facts(r)
					if !fs.False(okPath) {
						continue
					}
					found = true
					v := retVals(r)
					ok2, why := p.provablyNonNilErr(v[len(v)-1], r)
					c.check(rule, p.fnKey(f)+":closed⇒error", ok2, "on the closed-queue branch the call returns "+why, p.ipos(r))
				}
				c.check(rule, p.fnKey(f)+":comma-ok", found, "the receive tests for closure and the closed branch returns", p.ipos(i))
			}
		})
		c.floor(rule, "receives from the per-call queue in "+p.fnKey(f), n, 1)
	}
}

// ---- C09.6 ----
func ruleWaitingEscapable(c *Ctx, rule string) {
	p := c.p
	rd, _ := p.rwClosures(p.MustFn("client.RpcMultiplexer.NewStreamReadWriter"))
	own := func(op *BlockOp, ctx ssa.Value) (bool, string) {
		return p.lpath(ctx) == "p:ctx", "escape context " + p.lpath(ctx) + " (required: the caller's ctx)"
	}
	fns := []*ssa.Function{p.MustFn("client.RpcMultiplexer.CallUnaryMethod"), rd}
	n := ruleEscapable(c, rule, fns, nil, own)
	c.floor(rule, "waits in the unary call and the stream reader", n, 3)
	// the wait for a reply has exactly two ways out: the per-call queue and the caller's own context. Any further
	// case (e.g. the connection's context) races with a reply that is already buffered and can drop it.
	for _, f := range fns {
		for _, op := range p.Blocks().ops[f] {
			if op.Kind != "select" {
				continue
			}
			okShape := true
			var extra []string
			nq := 0
			for _, ch := range op.Chans {
				d := p.chanDesc(ch)
				if d == "Done()" {
					continue
				}
				nq++
			}
			for _, cx := range op.EscapeCtx {
				if p.lpath(cx) != "p:ctx" {
					okShape = false
					extra = append(extra, p.lpath(cx)+".Done()")
				}
			}
			if nq != 1 {
				okShape = false
			}
			c.check(rule, p.cname(f)+":wait-has-only-queue-and-caller-context", okShape, fmt.Sprintf("the reply wait selects on its queue and the caller's context only (extra cases: %v, data queues: %d)", extra, nq), p.ipos(op.Instr))
		}
	}
}

// ruleWhoPublishesFailure: the connection-wide failure (which closes every per-call queue) is published only by the
// read-loop goroutine and by Close. A caller's own write error or context must not fail everybody else's calls.
func ruleWhoPublishesFailure(c *Ctx, rule string) {
	p := c.p
	ce := p.MustFn("client.RpcMultiplexer.closeError")
	n := 0
	for _, cs := range p.Callers(ce) {
		n++
		k := p.cname(cs.caller)
		ok := k == "client.RpcMultiplexer.Close" || strings.HasPrefix(k, "client.NewRpcMultiplexer$go")
		c.check(rule, "closeError←"+k, ok, "closeError (fails every call on the connection) is invoked only by the read-loop goroutine and Close", p.ipos(cs.instr))
	}
	c.floor(rule, "callers of closeError", n, 2)
}

// ================= C10 =================

func ruleServeCancellable(c *Ctx, rule string) {
	p := c.p
	e := p.Origins()
	serve := p.MustFn("goat.handler.serve")
	rd, _ := p.readResult(p.serverReadLoopFn())
	an := p.ancestryOfValue(rd.Call.Args[0])
	hctx := ctxAncestryOf(func() TermSet {
		ts := TermSet{}
		for _, s := range p.FieldStores(fieldKey{"goat.handler", "ctx"}) {
			ts.addAll(e.Of(s.Val))
		}
		return ts
	}())
	okRead := anyHasPrefix(an.Ctors, "context.WithCancelCause(") && sameKeys(an.Ctors, hctx.Ctors)
	c.check(rule, "serve:read-context", okRead, fmt.Sprintf("the read loop's Read is handed a context derived via %v; the connection context is derived via %v", an.CtorList(), hctx.CtorList()), p.ipos(rd))
	// the connection context descends from the server context that Stop cancels
	stop := p.MustFn("goat.Server.Stop")
	okStop := false
	for _, f := range []*ssa.Function{stop} {
		allInstrs(f, func(i ssa.Instruction) {
			if cl, ok := i.(*ssa.Call); ok && typeKey(cl.Call.Value.Type()) == "context.CancelFunc" {
				cc := cancelCtorsOf(e.Of(cl.Call.Value))
				for k := range cc {
					if hctx.Ctors[k] {
						okStop = true
					}
				}
			}
		})
	}
	c.check(rule, "Stop:cancels-an-ancestor", okStop, "Server.Stop calls the cancel function of a context on the connection context's chain "+fmt.Sprint(hctx.CtorList()), p.pos(stop.Pos()))
	// writer goroutine cancels the connection on a write error
	w := p.serveWriter()
	okW := false
	allInstrs(w, func(i ssa.Instruction) {
		if cl, ok := i.(*ssa.Call); ok && typeKey(cl.Call.Value.Type()) == "context.CancelCauseFunc" {
			if p.callbackField(cl.Call.Value) == "goat.handler.cancel" {
				for k := range p.Facts(i) {
					if strings.HasPrefix(k, "nonnil(v:") {
						okW = true
					}
				}
			}
		}
	})
	c.check(rule, "writer:cancel-on-write-error", okW, "the writer goroutine cancels the connection context under fact write-error ≠ nil", p.pos(w.Pos()))
	// converse: after a failed write, every way on — the next turn of the loop or the goroutine's exit — passes that
	// cancel; a writer that stops (or carries on) silently leaves Serve running and every sender parked on the queue
	for _, wr := range p.transportOps(w, "Write", false) {
		errPath := p.lpath(wr)
		isCancel := func(i ssa.Instruction) bool {
			cl, ok := i.(*ssa.Call)
			return ok && typeKey(cl.Call.Value.Type()) == "context.CancelCauseFunc" && p.callbackField(cl.Call.Value) == "goat.handler.cancel"
		}
		isOnward := func(i ssa.Instruction) bool {
			switch i.(type) {
			case *ssa.Return, *ssa.Select:
				return true
			}
			return false
		}
		hit := p.pathAvoiding(w, wr, isOnward, isCancel, p.edgeImplies(w, atom("isnil", errPath)))
		where := ""
		if hit != nil {
			where = p.ipos(hit)
		}
		c.check(rule, "writer:every-write-error-cancels", hit == nil, "no path from a failed write to the next wait or to the goroutine's exit avoids h.cancel (reached without it: "+where+")", p.ipos(wr))
	}
	// and the cancel stored in handler.cancel belongs to handler.ctx
	pair := false
	for _, s := range p.FieldStores(fieldKey{"goat.handler", "cancel"}) {
		for k := range cancelCtorsOf(e.Of(s.Val)) {
			if hctx.Ctors[k] {
				pair = true
			}
		}
	}
	c.check(rule, "handler.cancel-pairs-with-handler.ctx", pair, "handler.cancel is the cancel function of handler.ctx")
	// serve defers h.cancel
	def := false
	allInstrs(serve, func(i ssa.Instruction) {
		if d, ok := i.(*ssa.Defer); ok && p.callbackField(d.Call.Value) == "goat.handler.cancel" {
			okDom := true
			for _, r := range returnsOf(serve) {
				if !instrDominates(d, r) {
					okDom = false
				}
			}
			def = okDom
		}
	})
	c.check(rule, "serve:defers-cancel", def, "serve defers the connection cancel before any return", p.pos(serve.Pos()))
}

func sameKeys(a, b map[string]bool) bool {
	if len(a) != len(b) {
		return false
	}
	for k := range a {
		if !b[k] {
			return false
		}
	}
	return true
}

func (p *Prog) isHandlerCtx(v ssa.Value) bool {
	// load of handler.ctx (directly or via a local copy)
	if p.locPathOfLoad(v) == "goat.handler.ctx" {
		return true
	}
	ok, _ := p.Origins().Of(v).AllMatch("call(context.WithCancelCause#0,...)")
	return ok
}

func ruleServeReturns(c *Ctx, rule string) {
	p := c.p
	serve := p.serverReadLoopFn()
	rd, _ := p.readResult(serve)
	errV := extractOf(rd, 1)
	okRet := false
	for _, r := range returnsOf(serve) {
		if errV != nil && p.Facts(r).NonNil(p.lpath(errV)) {
			okRet = true
		}
	}
	c.check(rule, "serve:returns-on-read-error", okRet, "serve returns on the path where Read failed", p.ipos(rd))
	fns := []*ssa.Function{serve}
	if outer := p.MustFn("goat.handler.serve"); outer != serve {
		fns = append(fns, outer)
	}
	n := ruleEscapable(c, rule, fns, nil, func(op *BlockOp, ctx ssa.Value) (bool, string) {
		return p.isHandlerCtx(ctx), "escape context " + p.lpath(ctx) + " must be the connection context h.ctx"
	})
	c.floor(rule, "blocking primitives in serve's loop", n, 2)
}

func ruleStreamsCancelledAndAwaited(c *Ctx, rule string) {
	p := c.p
	sv := p.MustFn("goat.Server.Serve")
	sc := p.oneCall(sv, "goat.handler.serve", false)
	isWait := func(i ssa.Instruction) bool {
		cl, ok := i.(*ssa.Call)
		return ok && cl.Call.StaticCallee() != nil && p.fnKey(cl.Call.StaticCallee()) == "goat.handler.cancelAndWaitForStreams"
	}
	c.check(rule, "Serve:waits-after-serve", p.mustPass(sc.(ssa.Instruction), isWait, true) == nil, "Server.Serve calls cancelAndWaitForStreams on every path after serve returns", p.ipos(sc.(ssa.Instruction)))
	cw := p.MustFn("goat.handler.cancelAndWaitForStreams")
	// per iteration: cancel the entry, then receive its done
	var cancelI, recvI ssa.Instruction
	allInstrs(cw, func(i ssa.Instruction) {
		if cl, ok := i.(*ssa.Call); ok && typeKey(cl.Call.Value.Type()) == "context.CancelFunc" {
			cancelI = i
		}
		if u, ok := i.(*ssa.UnOp); ok && u.Op.String() == "<-" && p.chanDesc(u.X) == "done" {
			recvI = i
		}
	})
	okIter := cancelI != nil && recvI != nil && instrDominates(cancelI, recvI) && inLoop(recvI.Block())
	c.check(rule, "cancelAndWaitForStreams:cancel-then-await", okIter, "each iteration cancels an entry and then awaits its completion signal", p.pos(cw.Pos()))
	// leaves the loop only when the registry is empty
	okExit := len(returnsOf(cw)) > 0
	for _, r := range returnsOf(cw) {
		fs := p.Facts(r)
		empty := false
		for k := range fs {
			if strings.HasPrefix(k, "cmp<=(len(") && strings.HasSuffix(k, ".streams),const:0)") {
				empty = true
			}
		}
		if !empty {
			okExit = false
		}
	}
	c.check(rule, "cancelAndWaitForStreams:exit-only-when-empty", okExit, "the wait loop is left only under fact len(streams) ≤ 0", p.pos(cw.Pos()))
	// neither the cancel nor the wait happens under the registry lock
	if cancelI != nil && recvI != nil {
		le := p.Locks()
		c.check(rule, "cancelAndWaitForStreams:waits-without-lock", !le.May(recvI)["goat.handler.mu"] && !le.May(cancelI)["goat.handler.mu"], "the wait is performed with the registry unlocked (the exiting stream needs the lock to unregister)", p.ipos(recvI))
	}
	// unregisterStream: signal + delete in one critical section
	us := p.MustFn("goat.handler.unregisterStream")
	var sendI, delI ssa.Instruction
	allInstrs(us, func(i ssa.Instruction) {
		if s, ok := i.(*ssa.Send); ok && p.chanDesc(s.Chan) == "done" {
			sendI = i
		}
		if cl, ok := i.(*ssa.Call); ok {
			if b, ok := cl.Call.Value.(*ssa.Builtin); ok && b.Name() == "delete" {
				delI = i
			}
		}
	})
	okU := sendI != nil && delI != nil && p.Locks().Must(sendI)["goat.handler.mu"] && p.Locks().Must(delI)["goat.handler.mu"]
	c.check(rule, "unregisterStream:signal-and-delete", okU, "completion is signalled and the entry deleted in one critical section of the registry lock", p.pos(us.Pos()))
	if delI != nil {
		c.check(rule, "unregisterStream:delete-unconditional", p.mustPass(us.Blocks[0].Instrs[0], func(i ssa.Instruction) bool { return i == delI }, false) == nil, "the entry is deleted on every path", p.ipos(delI))
	}
}

// ---- C10.4 every handler context is cancelled by connection end ----
func ruleHandlerCtxCancelledByConnEnd(c *Ctx, rule string) {
	p := c.p
	e := p.Origins()
	hctx := ctxAncestryOf(func() TermSet {
		ts := TermSet{}
		for _, s := range p.FieldStores(fieldKey{"goat.handler", "ctx"}) {
			ts.addAll(e.Of(s.Val))
		}
		return ts
	}())
	// cancel functions kept in a registry swept at connection end
	swept := map[string]bool{}
	for _, s := range p.FieldStores(fieldKey{"goat.streamHandler", "cancel"}) {
		for k := range cancelCtorsOf(e.Of(s.Val)) {
			swept[k] = true
		}
	}
	chk := func(name string, ctxArg ssa.Value, at ssa.Instruction) {
		an := p.ancestryOfValue(ctxArg)
		viaConn := false
		for k := range an.Ctors {
			if hctx.Ctors[k] {
				viaConn = true
			}
		}
		viaSweep := false
		for k := range an.Ctors {
			if swept[k] {
				viaSweep = true
			}
		}
		// the sweep covers only cancels that were actually stored for this call site's context: the
		// stream site stores result 1 of the very call whose result 0 it runs with (C07.5)
		if name == "unary" {
			viaSweep = false
		}
		// or: a cancel function of the chain is registered to run when the connection context ends
		viaAfter := false
		for _, ci := range p.callsTo(at.Parent(), "context.AfterFunc", false) {
			a := ci.Common().Args
			ca := p.ancestryOfValue(a[0])
			onConn := false
			for k := range ca.Ctors {
				if hctx.Ctors[k] {
					onConn = true
				}
			}
			if !onConn {
				continue
			}
			for k := range cancelCtorsOf(e.Of(a[1])) {
				if an.Ctors[k] && instrDominates(ci.(ssa.Instruction), at) {
					viaAfter = true
				}
			}
		}
		c.check(rule, name+":handler-context", viaConn || viaSweep || viaAfter,
			fmt.Sprintf("handler context: roots %v via %v; it neither descends from the connection context %v nor has a cancel function in the registry swept at connection end — when the connection ends the handler's context is never cancelled", an.RootList(), an.CtorList(), hctx.CtorList()), p.ipos(at))
	}
	pu := p.MustFn("goat.handler.processUnaryRpc")
	n := 0
	for _, op := range p.Blocks().ops[pu] {
		if op.Kind == "callback:grpc.MethodDesc.Handler" {
			n++
			chk("unary", op.Instr.(*ssa.Call).Call.Args[1], op.Instr)
		}
	}
	rs := p.MustFn("goat.handler.runStream")
	for _, ci := range p.callsTo(rs, "server.NewServerStream", false) {
		n++
		chk("stream", ci.Common().Args[0], ci.(ssa.Instruction))
	}
	c.floor(rule, "handler invocation sites", n, 2)
}

// ---- C10.5 every goroutine of the connection can exit ----
func ruleServerGoroutinesCanExit(c *Ctx, rule string) {
	p := c.p
	w, wk := p.serveWriter(), p.serveWorker()
	rs := p.MustFn("goat.handler.runStream")
	rd, wr := p.rwClosures(rs)
	ctxOK := func(op *BlockOp, ctx ssa.Value) (bool, string) {
		an := p.ancestryOfValue(ctx)
		ok := anyHasPrefix(an.Ctors, "context.WithCancelCause(") || anyHasPrefix(an.Ctors, "goat.contextFromHeaders(") || p.lpath(ctx) == "p:ctx"
		return ok, fmt.Sprintf("escape context %s (via %v) must be the connection context or the stream's swept context", p.lpath(ctx), an.CtorList())
	}
	n := ruleEscapable(c, rule, []*ssa.Function{w, wk, rs, rd, wr}, nil, ctxOK)
	c.floor(rule, "blocking primitives in server goroutines", n, 5)
	// X1: the wait for handler completion is required by the property itself
	c.observations = append(c.observations, "exception X1: `<-sh.done` in cancelAndWaitForStreams is a wait for handler completion that C10 itself demands; it is not an escapability violation")
}

// ruleRegistryRemovalSites: entries leave a registry only through the owner's exit path (which also signals /
// closes what waiters depend on). A second removal site lets a stream or call vanish from the sweep that
// awaits or fails it.
func ruleRegistryRemovalSites(c *Ctx, rule string, field string, allowed []string) {
	p := c.p
	n := 0
	for _, f := range p.Funcs {
		allInstrs(f, func(i ssa.Instruction) {
			cl, ok := i.(*ssa.Call)
			if !ok {
				return
			}
			b, ok := cl.Call.Value.(*ssa.Builtin)
			if !ok || b.Name() != "delete" {
				return
			}
			fk, ok := mapField(cl.Call.Args[0])
			if !ok || fk.String() != field {
				return
			}
			n++
			okSite := false
			for _, a := range allowed {
				if p.fnKey(f) == a {
					okSite = true
				}
			}
			c.check(rule, "delete:"+field+":"+p.cname(f), okSite, "entries of "+field+" are removed only by "+strings.Join(allowed, " / ")+" (the path that also signals completion / closes the entry's channel); a removal elsewhere hides the entry from the connection-end sweep", p.ipos(i))
		})
	}
	c.floor(rule, "removals from "+field, n, 1)
}

// ruleTerminalErrorIsStatus: what the stream read loop records as terminal error is either errorIfDone's verdict
// on a trailer envelope or a status error made by toStatusError; toStatusError never hands its argument (or
// io.EOF) back. Otherwise a transport that fails with io.EOF mid-stream is reported as a clean end of stream.
func ruleTerminalErrorIsStatus(c *Ctx, rule string) {
	p := c.p
	rl := p.MustFn("client.clientStream.readLoop")
	n := 0
	for _, s := range p.cellStores(p.terminalErrCell()) {
		if s.Parent() != rl {
			continue
		}
		n++
		ok := false
		why := "terminal error ← " + p.Origins().Of(s.Val).String()
		switch v := s.Val.(type) {
		case *ssa.Call:
			if sc := v.Call.StaticCallee(); sc != nil && p.fnKey(sc) == "client.toStatusError" {
				ok = true
			}
		case *ssa.Extract:
			if cl, isC := v.Tuple.(*ssa.Call); isC && cl.Call.StaticCallee() != nil && p.fnKey(cl.Call.StaticCallee()) == "client.errorIfDone" && v.Index == 1 {
				ok = true
			}
		}
		c.check(rule, "readLoop:terminal-error-source", ok, why+" — must be toStatusError(...) or errorIfDone's verdict (a raw transport error such as io.EOF would read as a clean end of stream)", p.ipos(s))
	}
	c.floor(rule, "assignments of the terminal error", n, 3)
	ts := p.MustFn("client.toStatusError")
	for _, r := range returnsOf(ts) {
		o := p.Origins().Of(retVals(r)[0])
		ok, why := o.AllMatch("call(*Status).Err,...)")
		c.check(rule, "toStatusError:returns-status-errors", ok, "toStatusError returns only status errors, never its argument or io.EOF: "+why, p.ipos(r))
	}
	// the same on the write side of the multiplexed stream: RecvMsg's io.EOF comes only from the recorded terminal state
	rm := p.MustFn("client.clientStream.RecvMsg")
	for _, r := range returnsOf(rm) {
		for _, t := range p.Origins().Of(retVals(r)[0]) {
			if t.Op == "global" && t.Name == "io.EOF" {
				c.check(rule, "RecvMsg:EOF-only-from-terminal-state", false, "RecvMsg returns io.EOF directly", p.ipos(r))
			}
		}
	}
}

// ruleForwardEscapableByStream (C11.6): the connection-wide read loop's hand-off into one stream's queue has, among its
// select cases, the Done() of that stream's own handler context (the registry entry's ctx). Connection-wide contexts
// alone do not help: when the handler has returned without draining its queue, nothing else would ever wake the loop.
func ruleForwardEscapableByStream(c *Ctx, rule string) {
	p := c.p
	f := p.MustFn("goat.handler.processStreamingRpc")
	n := 0
	for _, op := range p.Blocks().ops[f] {
		isForward := false
		for _, ch := range op.Chans {
			if p.chanDesc(ch) == "ch" {
				isForward = true
			}
		}
		if !isForward {
			continue
		}
		n++
		ok := false
		var seen []string
		for _, cx := range op.EscapeCtx {
			fld := p.ctxFieldOf(cx)
			seen = append(seen, fld+"("+p.lpath(cx)+")")
			if fld == "goat.streamHandler.ctx" {
				ok = true
			}
		}
		c.check(rule, "processStreamingRpc:forward-escapable-by-stream-context", op.Kind == "select" && ok,
			fmt.Sprintf("the hand-off into a stream's queue must select on that stream's handler context; escape contexts here: %v — a handler that returned with its queue full would otherwise block the connection's read loop for ever", seen), p.ipos(op.Instr))
	}
	c.floor(rule, "forwarding hand-offs in processStreamingRpc", n, 1)
	// and that context is done at the latest when the handler returns: runStream defers the entry's cancel
	rs := p.MustFn("goat.handler.runStream")
	okDefer := false
	allInstrs(rs, func(i ssa.Instruction) {
		if d, ok := i.(*ssa.Defer); ok && p.callbackFieldDeep(d.Call.Value) == "goat.streamHandler.cancel" {
			okDefer = true
		}
	})
	c.check(rule, "runStream:defers-stream-cancel", okDefer, "runStream defers the stream's cancel, so the stream context is done once the handler has returned", p.pos(rs.Pos()))
	// the ctx stored in the entry is the one that cancel cancels (results 0 and 1 of one constructor call)
	pair := false
	for _, s := range p.FieldStores(fieldKey{"goat.streamHandler", "ctx"}) {
		if ex, ok := s.Val.(*ssa.Extract); ok && ex.Index == 0 {
			for _, s2 := range p.FieldStores(fieldKey{"goat.streamHandler", "cancel"}) {
				if ex2, ok := s2.Val.(*ssa.Extract); ok && ex2.Index == 1 && ex2.Tuple == ex.Tuple {
					pair = true
				}
			}
		}
	}
	c.check(rule, "streamHandler:ctx-pairs-with-cancel", pair, "the entry's ctx and cancel are results 0 and 1 of the same context constructor call")
}

// ctxFieldOf: the goat-owned struct field a context value was loaded from ("" if none), looking through local copies
// of registry entries.
func (p *Prog) ctxFieldOf(v ssa.Value) string {
	switch x := v.(type) {
	case *ssa.UnOp:
		if fa, ok := x.X.(*ssa.FieldAddr); ok {
			if fk, ok := ownerKey(fa); ok {
				return fk.String()
			}
		}
	case *ssa.Field:
		if fk, ok := ownerKey(x); ok {
			return fk.String()
		}
	}
	return ""
}

// ruleLongHeldLockAcquisitions (C11.5): a registry lock under which a blocking primitive may execute can be held for
// an unbounded time; every place that waits for such a lock is itself a potential wedge point. The call sites of the
// functions that acquire it are frozen (each is a recorded consequence of the open finding); a new one is reported.
var longHeldAllowed = map[string]int{
	// rm.mutex is long-held while finding F13a (send under the lock in handleResponse) is open
	"client.RpcMultiplexer.closeError←client.RpcMultiplexer.Close":                          1,
	"client.RpcMultiplexer.closeError←client.NewRpcMultiplexer$go:":                         1,
	"client.RpcMultiplexer.handleResponse←client.RpcMultiplexer.readLoop":                   1,
	"client.RpcMultiplexer.registerHandler←client.RpcMultiplexer.CallUnaryMethod":           1,
	"client.RpcMultiplexer.registerHandler←client.RpcMultiplexer.NewStreamReadWriter":       1,
	"client.RpcMultiplexer.unregisterHandler←client.RpcMultiplexer.CallUnaryMethod":         1,
	"client.RpcMultiplexer.unregisterHandler←client.RpcMultiplexer.NewStreamReadWriter$1":   1,
	"client.RpcMultiplexer.readErrorIfDone←client.RpcMultiplexer.CallUnaryMethod":           1,
	"client.RpcMultiplexer.readErrorIfDone←client.RpcMultiplexer.NewStreamReadWriter":       1,
	"client.RpcMultiplexer.readErrorIfDone←client.RpcMultiplexer.NewStreamReadWriter$reader": 1,
	"client.RpcMultiplexer.readErrorIfDone←client.RpcMultiplexer.NewStreamReadWriter$writer": 1,
}

func ruleLongHeldLockAcquisitions(c *Ctx, rule string) {
	p := c.p
	le := p.Locks()
	be := p.Blocks()
	long := map[string]string{}
	for _, f := range p.Funcs {
		for _, op := range be.ops[f] {
			if ok, _ := exceptionDoneSignal(c, op); ok {
				continue
			}
			for k := range le.May(op.Instr) {
				if _, reg := registryLocks[k]; reg {
					long[k] = p.cname(f) + ":" + p.opDesc(op)
				}
			}
		}
	}
	c.inv("long_held_registry_locks", long)
	if len(long) == 0 {
		c.check(rule, "no-long-held-registry-lock", true, "no blocking primitive executes under a registry lock: waiting for one is bounded by short critical sections")
		return
	}
	// functions that acquire a long-held lock
	acq := map[*ssa.Function]string{}
	for _, a := range le.acquires {
		k, _ := lockOp(commonOf(a))
		if _, isLong := long[k]; isLong {
			acq[a.Parent()] = k
		}
	}
	counts := map[string]int{}
	pos := map[string][]string{}
	for f, k := range acq {
		for _, cs := range p.Callers(f) {
			callerName := p.cname(cs.caller)
			if cs.caller.Parent() != nil && strings.Contains(callerName, "$deferred") {
				callerName = p.cname(cs.caller.Parent()) // a deferred closure runs as part of its function's exit
			}
			key := p.fnKey(f) + "←" + callerName
			counts[key]++
			pos[key] = append(pos[key], p.ipos(cs.instr))
			_ = k
		}
	}
	for _, key := range sortedKeys(counts) {
		want, known := longHeldAllowed[key]
		ok := known && counts[key] <= want
		lk := ""
		for f, k := range acq {
			if strings.HasPrefix(key, p.fnKey(f)+"←") {
				lk = k
			}
		}
		c.check(rule, "waits-for-long-held-lock:"+key, ok,
			fmt.Sprintf("%d call site(s) wait for %s, which may be held for an unbounded time (%s executes under it); the recorded, unavoidable sites are frozen (%d allowed here) — an additional wait is a new way to wedge the connection", counts[key], lk, long[lk], want), pos[key]...)
	}
}

// ruleRegistrationRefusalHonoured: registerHandler refuses (returns an error, registers nothing) once the connection
// has failed. A caller that goes on regardless — writes its request, or reports success — waits for a reply on a
// channel nobody will ever close. So from every call of registerHandler, each path to a transport write or to a
// successful return passes an edge on which the returned error is known to be nil.
func ruleRegistrationRefusalHonoured(c *Ctx, rule string) {
	p := c.p
	reg := p.MustFn("client.RpcMultiplexer.registerHandler")
	n := 0
	for _, cs := range p.Callers(reg) {
		call, ok := cs.instr.(*ssa.Call)
		if !ok {
			c.check(rule, "registerHandler←"+p.cname(cs.caller)+":result-used", false, "registerHandler is started with go / defer: its refusal cannot be seen", p.ipos(cs.instr))
			continue
		}
		n++
		f := cs.caller
		errPath := p.lpath(call)
		isOnward := func(i ssa.Instruction) bool {
			switch x := i.(type) {
			case *ssa.Return:
				vs := retVals(x)
				return len(vs) > 0 && isNilConst(vs[len(vs)-1])
			case *ssa.Call:
				for _, w := range p.transportOps(f, "Write", false) {
					if w == x {
						return true
					}
				}
			}
			return false
		}
		hit := p.pathAvoiding(f, call, isOnward, func(ssa.Instruction) bool { return false }, p.edgeImplies(f, atom("isnil", errPath)))
		where := ""
		if hit != nil {
			where = p.ipos(hit)
		}
		c.check(rule, "registerHandler←"+p.cname(f)+":refusal-honoured", hit == nil, "no write and no successful return is reachable from the registration without passing `err == nil` (reached: "+where+")", p.ipos(call))
	}
	c.floor(rule, "call sites of registerHandler", n, 2)
}
