#!/bin/bash
# usage: intake_par.sh <round> <Cnn…> — intake of changes 1 and 2 of the given properties, 6 at a time; one log per property
r=$1; shift
mkdir -p /tmp/intake_logs
printf '%s\n' "$@" | xargs -P 6 -I{} bash -c 'for n in 1 2; do /verif/tools/intake.sh {} $n '"$r"' 2>&1 | grep -E "^== C|caught by|REJECT|no /tmp" ; done > /tmp/intake_logs/{}.log 2>&1'
for p in "$@"; do cat /tmp/intake_logs/$p.log; done
