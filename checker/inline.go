package main

// Helper normalisation. The rules anchor constructs in the functions of the tree they were confirmed on (the
// frozen inventory, rename.go). Extracting part of such a function into a new helper (or a constructor, or
// moving a closure into a named method) must not unbind them. So, before analysis, every call to a function
// that is NEW with respect to the inventory is spliced back into its caller, in an in-memory overlay:
//
//   stmt mode   x, err := h.helper(a, b)        (callee without defer / recover / labels / variadics)
//               → var _r0 T0; var _r1 T1; { var _a0 R = h; var _a1 A = a; …
//                 { h := _a0; a := _a1; …; L: switch { default: <callee body, `return e…` → `{_r0,_r1 = e…; break L}`> } } }
//                 x, err := _r0, _r1
//               allowed where the call is evaluated exactly once and nothing with an effect is evaluated before it
//               in the same statement (expression / assignment / var / return / send statements, if- and
//               switch-init and condition, range operand), so hoisting it keeps the order of evaluation;
//   tail mode   `return helper(a)` or a final `helper(a)` statement: the body is spliced verbatim (its defers then
//               run at the same point as before);
//   go / defer  go h.loop(ctx) → go func(h *T, ctx C) { <body> }(h, ctx).
//
// The spliced text keeps the callee's own lines (a //line directive maps them back to the helper's file, another
// one resynchronises the caller), arguments are evaluated once, in order, into uniquely named temporaries typed
// by the callee's parameter types; a site is skipped if a name the body uses would resolve differently at the
// call site, or if an import is missing and cannot be added. A helper whose every use was spliced is deleted
// from the overlay. The overlay must type-check, else the whole step is abandoned and the tree is analysed as
// written. Splicing is repeated (helpers calling helpers) up to inlineMaxPasses times. What was spliced is
// printed and recorded in the evidence.

import (
	"fmt"
	"go/ast"
	"go/token"
	"go/types"
	"os"
	"sort"
	"strings"

	"golang.org/x/tools/go/packages"
)

const inlineMaxPasses = 5

var inlineSiteSeq = 0

// helpers (by inventory key) that were spliced somewhere in an earlier or the current pass
var splicedEver = map[string]bool{}

type helperInfo struct {
	item     *invItem
	obj      *types.Func
	decl     *ast.FuncDecl
	pkg      *packages.Package
	file     *ast.File
	hasDefer bool // defer or recover in the body (outside nested literals) that cannot be replayed at the exits
	// simpleDefers: `defer x.m()` statements (niladic call on a name / selector chain) directly in the body's statement
	// list: in stmt mode they are replayed, in reverse order, at every exit of the spliced body that follows them
	simpleDefers []*ast.DeferStmt
	plainOK  bool // may be spliced in stmt mode
	why      string
	uses     int
	done     int
}

type textEdit struct {
	start, end int
	text       string
}

func fileContent(name string, overlay map[string][]byte) ([]byte, error) {
	if b, ok := overlay[name]; ok {
		return b, nil
	}
	return os.ReadFile(name)
}

// newHelpers: declared functions and methods of the in-scope packages that are not in the frozen inventory.
func newHelpers(pkgs []*packages.Package, frozen []*invItem) map[*types.Func]*helperInfo {
	frz := map[string]bool{}
	for _, f := range frozen {
		frz[f.key()] = true
	}
	out := map[*types.Func]*helperInfo{}
	byObj := map[types.Object]*invItem{}
	for _, it := range inventoryOf(pkgs) {
		if (it.Kind == "func" || it.Kind == "method") && !frz[it.key()] {
			byObj[it.obj] = it
		}
	}
	if len(byObj) == 0 {
		return out
	}
	packages.Visit(pkgs, nil, func(pk *packages.Package) {
		if !isScopePath(pk.PkgPath) || pk.TypesInfo == nil {
			return
		}
		for _, f := range pk.Syntax {
			for _, d := range f.Decls {
				fd, ok := d.(*ast.FuncDecl)
				if !ok || fd.Body == nil {
					continue
				}
				o, _ := pk.TypesInfo.Defs[fd.Name].(*types.Func)
				if o == nil || byObj[o] == nil {
					continue
				}
				h := &helperInfo{item: byObj[o], obj: o, decl: fd, pkg: pk, file: f, plainOK: true}
				if fd.Type.TypeParams != nil {
					h.plainOK, h.why = false, "generic"
				}
				if fd.Recv != nil {
					// generic receiver
					if t := fd.Recv.List[0].Type; containsIndex(t) {
						h.plainOK, h.why = false, "generic receiver"
					}
				}
				if fd.Type.Params != nil {
					for _, fl := range fd.Type.Params.List {
						if _, ok := fl.Type.(*ast.Ellipsis); ok {
							h.plainOK, h.why = false, "variadic"
						}
					}
				}
				top := map[*ast.DeferStmt]bool{}
				for _, st := range fd.Body.List {
					if d, ok := st.(*ast.DeferStmt); ok && len(d.Call.Args) == 0 && plainCallee(d.Call.Fun) {
						top[d] = true
						h.simpleDefers = append(h.simpleDefers, d)
					}
				}
				inspectOwn(fd.Body, func(n ast.Node) {
					switch x := n.(type) {
					case *ast.DeferStmt:
						if !top[x] {
							h.hasDefer = true
						}
					case *ast.LabeledStmt, *ast.BranchStmt:
						if b, ok := x.(*ast.BranchStmt); ok && b.Label == nil {
							return
						}
						h.plainOK, h.why = false, "labels"
					case *ast.CallExpr:
						if id, ok := x.Fun.(*ast.Ident); ok && id.Name == "recover" {
							h.hasDefer = true
						}
						if calleeOf(pk.TypesInfo, x) == o {
							h.plainOK, h.why = false, "recursive"
						}
					}
				})
				out[o] = h
			}
		}
	})
	return out
}

// plainCallee: a name or a chain of field selections on a name (x.mu.Unlock).
func plainCallee(e ast.Expr) bool {
	switch x := e.(type) {
	case *ast.Ident:
		return true
	case *ast.SelectorExpr:
		return plainCallee(x.X)
	}
	return false
}

func containsIndex(e ast.Expr) bool {
	found := false
	ast.Inspect(e, func(n ast.Node) bool {
		switch n.(type) {
		case *ast.IndexExpr, *ast.IndexListExpr:
			found = true
		}
		return true
	})
	return found
}

// inspectOwn visits the nodes of a function body without descending into nested function literals.
func inspectOwn(body ast.Node, f func(ast.Node)) {
	ast.Inspect(body, func(n ast.Node) bool {
		if n == nil {
			return false
		}
		if _, ok := n.(*ast.FuncLit); ok {
			return false
		}
		f(n)
		return true
	})
}

func calleeOf(info *types.Info, c *ast.CallExpr) *types.Func {
	var id *ast.Ident
	switch f := ast.Unparen(c.Fun).(type) {
	case *ast.Ident:
		id = f
	case *ast.SelectorExpr:
		id = f.Sel
	}
	if id == nil {
		return nil
	}
	if fn, ok := info.Uses[id].(*types.Func); ok {
		return fn.Origin()
	}
	return nil
}

type inlineResult struct {
	overlay map[string][]byte
	notes   []string
	changed bool
}

// inlinePass performs one round of splicing on the loaded packages.
func inlinePass(pkgs []*packages.Package, frozen []*invItem, overlay map[string][]byte) (*inlineResult, error) {
	helpers := newHelpers(pkgs, frozen)
	res := &inlineResult{overlay: map[string][]byte{}}
	for k, v := range overlay {
		res.overlay[k] = v
	}
	if len(helpers) == 0 {
		return res, nil
	}
	fset := pkgs[0].Fset
	// count uses
	packages.Visit(pkgs, nil, func(pk *packages.Package) {
		if !strings.HasPrefix(pk.PkgPath, modPath) || pk.TypesInfo == nil {
			return
		}
		for _, o := range pk.TypesInfo.Uses {
			if fn, ok := o.(*types.Func); ok {
				if h := helpers[fn.Origin()]; h != nil {
					h.uses++
				}
			}
		}
	})
	edits := map[string][]textEdit{}
	site := inlineSiteSeq
	defer func() { inlineSiteSeq = site }()
	// closures that became named functions go back to being closures of their only user (reclosure)
	reclosed := reclosePass(fset, pkgs, frozen, helpers, overlay, edits, &site, res)
	var firstErr error
	packages.Visit(pkgs, nil, func(pk *packages.Package) {
		if !isScopePath(pk.PkgPath) || pk.TypesInfo == nil {
			return
		}
		for _, file := range pk.Syntax {
			fname := fset.File(file.Pos()).Name()
			src, err := fileContent(fname, overlay)
			if err != nil {
				firstErr = err
				return
			}
			var fileEdits []textEdit
			addImports := map[string]string{} // local name → path
			overlaps := func(a, b int) bool {
				for _, e := range fileEdits {
					if a < e.end && e.start < b {
						return true
					}
				}
				for _, e := range edits[fname] {
					if a < e.end && e.start < b {
						return true
					}
				}
				return false
			}
			var stack []ast.Node
			ast.Inspect(file, func(n ast.Node) bool {
				if n == nil {
					stack = stack[:len(stack)-1]
					return false
				}
				stack = append(stack, n)
				call, ok := n.(*ast.CallExpr)
				if !ok {
					return true
				}
				h := helpers[calleeOf(pk.TypesInfo, call)]
				if h == nil || h.pkg != pk || reclosed[h.obj] {
					return true
				}
				// do not splice a helper into itself
				for _, a := range stack {
					if a == ast.Node(h.decl) {
						return true
					}
				}
				site++
				ed, imps, note := spliceSite(fset, pk, file, src, overlay, stack, call, h, site)
				if ed == nil {
					if note != "" {
						res.notes = append(res.notes, fmt.Sprintf("helper %s left in place at %s: %s", h.item.key(), fset.Position(call.Pos()), note))
					}
					return true
				}
				if overlaps(ed.start, ed.end) {
					return true // a later pass takes it
				}
				fileEdits = append(fileEdits, *ed)
				for k, v := range imps {
					addImports[k] = v
				}
				h.done++
				res.notes = append(res.notes, fmt.Sprintf("helper %s spliced into its caller at %s", strings.TrimPrefix(h.item.key(), h.item.Kind+"|"), fset.Position(call.Pos())))
				return true
			})
			if len(addImports) > 0 {
				off := fset.File(file.Pos()).Offset(file.Name.End())
				var names []string
				for k := range addImports {
					names = append(names, k)
				}
				sort.Strings(names)
				txt := ""
				for _, k := range names {
					txt += fmt.Sprintf("; import %s %q", k, addImports[k])
				}
				fileEdits = append(fileEdits, textEdit{off, off, txt})
			}
			if len(fileEdits) > 0 {
				edits[fname] = append(edits[fname], fileEdits...)
			}
		}
	})
	if firstErr != nil {
		return nil, firstErr
	}
	// helpers whose every use was spliced disappear — unless another helper, whose text may just have been copied
	// somewhere, mentions them (the copy still needs the declaration; the next pass takes care of it)
	mentioned := map[*types.Func]bool{}
	for _, h := range helpers {
		ast.Inspect(h.decl, func(n ast.Node) bool {
			if id, ok := n.(*ast.Ident); ok {
				if fn, ok := h.pkg.TypesInfo.Uses[id].(*types.Func); ok && helpers[fn.Origin()] != nil && fn.Origin() != h.obj {
					mentioned[fn.Origin()] = true
				}
			}
			return true
		})
	}
	for _, h := range helpers {
		if mentioned[h.obj] || reclosed[h.obj] {
			continue
		}
		if h.done > 0 {
			splicedEver[h.item.key()] = true
		}
		if h.done == h.uses && splicedEver[h.item.key()] {
			fname := fset.File(h.file.Pos()).Name()
			tf := fset.File(h.decl.Pos())
			start := tf.Offset(h.decl.Pos())
			if h.decl.Doc != nil {
				start = tf.Offset(h.decl.Doc.Pos())
			}
			end := tf.Offset(h.decl.End())
			ok := true
			for _, e := range edits[fname] {
				if start < e.end && e.start < end {
					ok = false // something was spliced into this helper in the same pass: next pass
				}
			}
			if ok {
				src, err := fileContent(fname, overlay)
				if err != nil {
					return nil, err
				}
				edits[fname] = append(edits[fname], textEdit{start, end, strings.Repeat("\n", strings.Count(string(src[start:end]), "\n"))})
			}
		}
	}
	for fname, es := range edits {
		src, err := fileContent(fname, overlay)
		if err != nil {
			return nil, err
		}
		sort.Slice(es, func(i, j int) bool {
			if es[i].start != es[j].start {
				return es[i].start > es[j].start
			}
			return es[i].end > es[j].end
		})
		for _, e := range es {
			src = append(append(append([]byte{}, src[:e.start]...), e.text...), src[e.end:]...)
		}
		res.overlay[fname] = src
		res.changed = true
	}
	sort.Strings(res.notes)
	return res, nil
}

// spliceSite builds the replacement for the statement containing call, or returns nil with the reason.
func spliceSite(fset *token.FileSet, pk *packages.Package, file *ast.File, src []byte, overlay map[string][]byte, stack []ast.Node, call *ast.CallExpr, h *helperInfo, id int) (*textEdit, map[string]string, string) {
	tf := fset.File(file.Pos())
	off := func(p token.Pos) int { return tf.Offset(p) }
	text := func(n ast.Node) string { return string(src[off(n.Pos()):off(n.End())]) }
	hf := fset.File(h.decl.Pos())
	hsrc, err := fileContent(hf.Name(), overlay)
	if err != nil {
		return nil, nil, err.Error()
	}
	htext := func(n ast.Node) string { return string(hsrc[hf.Offset(n.Pos()):hf.Offset(n.End())]) }

	// --- where is the call? ---
	// enclosing function and the statement that is a direct member of a statement list
	var encl ast.Node
	var stmt ast.Stmt
	var stmtParent ast.Node
	for i := len(stack) - 1; i >= 0; i-- {
		switch x := stack[i].(type) {
		case *ast.FuncLit, *ast.FuncDecl:
			if encl == nil {
				encl = x
			}
		}
		if encl != nil {
			break
		}
		if s, ok := stack[i].(ast.Stmt); ok && i > 0 {
			switch par := stack[i-1].(type) {
			case *ast.BlockStmt, *ast.CaseClause, *ast.CommClause:
				if stmt == nil {
					stmt, stmtParent = s, par
				}
			}
		}
	}
	if encl == nil || stmt == nil {
		return nil, nil, "not inside a statement list"
	}
	if fd, ok := encl.(*ast.FuncDecl); ok && fd.Type.TypeParams != nil {
		return nil, nil, "generic caller"
	}
	_ = stmtParent

	// --- callee pieces ---
	type param struct{ name, typ string }
	var params []param
	recvAdj := ""
	var argTexts []string
	if h.decl.Recv != nil {
		sel, ok := ast.Unparen(call.Fun).(*ast.SelectorExpr)
		if !ok {
			return nil, nil, "method called through an expression form"
		}
		s := pk.TypesInfo.Selections[sel]
		if s == nil || s.Kind() != types.MethodVal || len(s.Index()) != 1 {
			return nil, nil, "promoted or expression method"
		}
		rf := h.decl.Recv.List[0]
		rname := "_"
		if len(rf.Names) == 1 {
			rname = rf.Names[0].Name
		}
		params = append(params, param{rname, htext(rf.Type)})
		_, recvPtr := h.obj.Type().(*types.Signature).Recv().Type().(*types.Pointer)
		_, exprPtr := pk.TypesInfo.TypeOf(sel.X).Underlying().(*types.Pointer)
		switch {
		case recvPtr && !exprPtr:
			recvAdj = "&"
		case !recvPtr && exprPtr:
			recvAdj = "*"
		}
		argTexts = append(argTexts, recvAdj+"("+text(sel.X)+")")
	} else if _, ok := ast.Unparen(call.Fun).(*ast.Ident); !ok {
		return nil, nil, "function called through a qualified name"
	}
	if h.decl.Type.Params != nil {
		for _, fl := range h.decl.Type.Params.List {
			if _, ok := fl.Type.(*ast.Ellipsis); ok {
				return nil, nil, "variadic helper"
			}
			if len(fl.Names) == 0 {
				params = append(params, param{"_", htext(fl.Type)})
			}
			for _, nm := range fl.Names {
				params = append(params, param{nm.Name, htext(fl.Type)})
			}
		}
	}
	for _, a := range call.Args {
		argTexts = append(argTexts, text(a))
	}
	if call.Ellipsis.IsValid() || len(argTexts) != len(params) {
		return nil, nil, "argument list does not map one-to-one onto parameters"
	}
	type result struct{ name, typ string }
	var results []result
	if h.decl.Type.Results != nil {
		for _, fl := range h.decl.Type.Results.List {
			if len(fl.Names) == 0 {
				results = append(results, result{"", htext(fl.Type)})
			}
			for _, nm := range fl.Names {
				results = append(results, result{nm.Name, htext(fl.Type)})
			}
		}
	}

	// --- names the spliced text relies on must mean the same at the call site ---
	imports, why := freeNamesAgree(fset, pk, file, stmt.Pos(), h)
	if why != "" {
		return nil, nil, why
	}

	calleeLine := fset.Position(h.decl.Body.Lbrace)
	callerLine := fset.Position(stmt.Pos())
	lineDir := func(p token.Position) string { return fmt.Sprintf("\n//line %s:%d\n", p.Filename, p.Line) }
	bodyStart, bodyEnd := hf.Offset(h.decl.Body.Lbrace)+1, hf.Offset(h.decl.Body.Rbrace)

	// --- go / defer: re-closure ---
	switch gs := stmt.(type) {
	case *ast.GoStmt, *ast.DeferStmt:
		var c *ast.CallExpr
		kw := "go"
		if g, ok := gs.(*ast.GoStmt); ok {
			c = g.Call
		} else {
			c, kw = gs.(*ast.DeferStmt).Call, "defer"
		}
		if c != call {
			break
		}
		var ps []string
		for _, p := range params {
			ps = append(ps, p.name+" "+p.typ)
		}
		resTxt := ""
		if h.decl.Type.Results != nil {
			resTxt = " " + htext(h.decl.Type.Results)
		}
		var b strings.Builder
		fmt.Fprintf(&b, "%s func(%s)%s {", kw, strings.Join(ps, ", "), resTxt)
		b.WriteString(lineDir(calleeLine))
		b.WriteString(string(hsrc[bodyStart:bodyEnd]))
		b.WriteString("}(" + strings.Join(argTexts, ", ") + ")")
		b.WriteString(lineDir(fset.Position(stmt.End())))
		b.WriteString(strings.Repeat("\n", 0))
		// keep the rest of the caller's line on its own line number
		end := off(stmt.End())
		return &textEdit{off(stmt.Pos()), end, resyncTail(b.String(), src, off(stmt.Pos()), end, callerLine, fset.Position(stmt.End()))}, imports, ""
	}

	// --- is the call evaluated exactly once, first, in this statement? ---
	tail := false
	switch s := stmt.(type) {
	case *ast.ReturnStmt:
		if len(s.Results) == 1 && ast.Unparen(s.Results[0]) == ast.Expr(call) {
			tail = true
		}
	case *ast.ExprStmt:
		if ast.Unparen(s.X) == ast.Expr(call) && len(results) == 0 {
			if body := enclosingBody(encl); body != nil && len(body.List) > 0 && body.List[len(body.List)-1] == ast.Stmt(s) {
				tail = true
			}
		}
	}
	if !h.plainOK {
		return nil, nil, "helper is " + h.why
	}
	if h.hasDefer && !tail {
		return nil, nil, "helper defers / recovers and the call is not in tail position"
	}
	if !h.hasDefer && tail {
		// `return helper(…)`: splicing the body verbatim (its returns become the caller's) avoids merging the helper's
		// outcomes only to return them; possible when the result lists agree
		same := false
		if _, isRet := stmt.(*ast.ReturnStmt); isRet {
			var er *types.Tuple
			switch f := encl.(type) {
			case *ast.FuncDecl:
				if o, ok := pk.TypesInfo.Defs[f.Name].(*types.Func); ok {
					er = o.Type().(*types.Signature).Results()
				}
			case *ast.FuncLit:
				if sg, ok := pk.TypesInfo.TypeOf(f).(*types.Signature); ok {
					er = sg.Results()
				}
			}
			hr := h.obj.Type().(*types.Signature).Results()
			if er != nil && er.Len() == hr.Len() {
				same = true
				for k := 0; k < er.Len(); k++ {
					if !types.Identical(er.At(k).Type(), hr.At(k).Type()) {
						same = false
					}
				}
			}
			// named results of the helper would need declaring; keep the general form then
			if len(results) > 0 && results[0].name != "" {
				same = false
			}
		}
		if !same {
			tail = false // the general form keeps the statement's own shape
		}
	}
	if !tail {
		if why := hoistable(pk.TypesInfo, stmt, call); why != "" {
			return nil, nil, why
		}
	}

	var b strings.Builder
	tmp := func(kind string, k int) string { return fmt.Sprintf("_i%s%d_%d", kind, id, k) }
	if tail {
		// { var temps; params; <body verbatim> }
		b.WriteString("{ ")
		for k, a := range argTexts {
			fmt.Fprintf(&b, "var %s %s = %s; _ = %s; ", tmp("a", k), params[k].typ, a, tmp("a", k))
		}
		b.WriteString(lineDir(calleeLine))
		for k, p := range params {
			if p.name != "_" {
				fmt.Fprintf(&b, "%s := %s; _ = %s; ", p.name, tmp("a", k), p.name)
			}
		}
		b.WriteString(string(hsrc[bodyStart:bodyEnd]))
		b.WriteString("}")
		// a spliced body that ends without return (void tail statement) simply falls out of the block
		return &textEdit{off(stmt.Pos()), off(stmt.End()), resyncTail(b.String(), src, off(stmt.Pos()), off(stmt.End()), callerLine, fset.Position(stmt.End()))}, imports, ""
	}

	// general form
	for k, r := range results {
		fmt.Fprintf(&b, "var %s %s; _ = %s; ", tmp("r", k), r.typ, tmp("r", k))
	}
	b.WriteString("{ ")
	for k, a := range argTexts {
		fmt.Fprintf(&b, "var %s %s = %s; _ = %s; ", tmp("a", k), params[k].typ, a, tmp("a", k))
	}
	b.WriteString(lineDir(calleeLine))
	b.WriteString("{ ")
	for k, p := range params {
		if p.name != "_" {
			fmt.Fprintf(&b, "%s := %s; _ = %s; ", p.name, tmp("a", k), p.name)
		}
	}
	named := len(results) > 0 && results[0].name != ""
	if named {
		for _, r := range results {
			if r.name != "_" {
				fmt.Fprintf(&b, "var %s %s; _ = %s; ", r.name, r.typ, r.name)
			}
		}
	}
	label := tmp("L", 0)
	// rewrite the helper's own return statements
	var rets []*ast.ReturnStmt
	inspectOwn(h.decl.Body, func(n ast.Node) {
		if r, ok := n.(*ast.ReturnStmt); ok {
			rets = append(rets, r)
		}
	})
	var redits []textEdit
	var lhs []string
	for k := range results {
		lhs = append(lhs, tmp("r", k))
	}
	// error threading: `x, err := helper(); if err != nil { T }` — a return of the helper that certainly carries
	// an error continues with a copy of T right there instead of merging with the success path first
	lastType := ""
	if len(results) > 0 {
		lastType = results[len(results)-1].typ
	}
	th := threadContext(pk, src, off, stmt, stmtParent, call, lhs, lastType)
	labelUsed := false
	// deferred calls registered before position pos, most recent first
	replay := func(pos token.Pos) string {
		out := ""
		for k := len(h.simpleDefers) - 1; k >= 0; k-- {
			if d := h.simpleDefers[k]; d.End() <= pos {
				out += htext(d.Call) + "; "
			}
		}
		return out
	}
	for _, d := range h.simpleDefers {
		redits = append(redits, textEdit{hf.Offset(d.Pos()) - bodyStart, hf.Offset(d.End()) - bodyStart, "{}"})
	}
	for _, r := range rets {
		var t string
		if th != nil && len(r.Results) == len(results) && certainlyFailure(h.pkg.TypesInfo, h.decl.Body, r, th) && !th.shadowedAt(h, r.Pos()) {
			var vals []string
			for _, e := range r.Results {
				vals = append(vals, htext(e))
			}
			t = "{ " + strings.Join(lhs, ", ") + " = " + strings.Join(vals, ", ") + "; " + replay(r.Pos()) + "{ " + th.prefix +
				lineDir(fset.Position(th.tStart)) + th.tText + lineDir(fset.Position(r.End())) + "} }"
			redits = append(redits, textEdit{hf.Offset(r.Pos()) - bodyStart, hf.Offset(r.End()) - bodyStart, t})
			continue
		}
		labelUsed = true
		switch {
		case len(results) == 0:
			t = "{ " + replay(r.Pos()) + "break " + label + " }"
		case len(r.Results) == 0:
			if !named {
				return nil, nil, "bare return without named results"
			}
			var vals []string
			for _, rr := range results {
				if rr.name == "_" {
					return nil, nil, "blank named result"
				}
				vals = append(vals, rr.name)
			}
			t = "{ " + strings.Join(lhs, ", ") + " = " + strings.Join(vals, ", ") + "; " + replay(r.Pos()) + "break " + label + " }"
		default:
			var vals []string
			for _, e := range r.Results {
				vals = append(vals, htext(e))
			}
			t = "{ " + strings.Join(lhs, ", ") + " = " + strings.Join(vals, ", ") + "; " + replay(r.Pos()) + "break " + label + " }"
		}
		redits = append(redits, textEdit{hf.Offset(r.Pos()) - bodyStart, hf.Offset(r.End()) - bodyStart, t})
	}
	body := hsrc[bodyStart:bodyEnd]
	sort.Slice(redits, func(i, j int) bool { return redits[i].start > redits[j].start })
	for _, e := range redits {
		body = append(append(append([]byte{}, body[:e.start]...), e.text...), body[e.end:]...)
	}
	if labelUsed {
		b.WriteString(label + ": ")
	}
	b.WriteString("switch { default: ")
	b.Write(body)
	if len(results) == 0 {
		b.WriteString("; " + replay(h.decl.Body.Rbrace))
	}
	b.WriteString("} } }")
	b.WriteString(lineDir(callerLine))
	// the statement itself, with the call replaced by the result temporaries
	if es, ok := stmt.(*ast.ExprStmt); ok && ast.Unparen(es.X) == ast.Expr(call) {
		pad := strings.Count(string(src[off(stmt.Pos()):off(stmt.End())]), "\n")
		b.WriteString(strings.Repeat("\n", pad))
		return &textEdit{off(stmt.Pos()), off(stmt.End()), b.String()}, imports, ""
	}
	if len(results) == 0 {
		return nil, nil, "void helper used as a value"
	}
	st := string(src[off(stmt.Pos()):off(call.Pos())]) + strings.Join(lhs, ", ") + string(src[off(call.End()):off(stmt.End())])
	pad := strings.Count(string(src[off(stmt.Pos()):off(stmt.End())]), "\n") - strings.Count(st, "\n")
	// newlines lost with a multi-line call are given back right after the replaced call, where a line break is
	// harmless only after a complete statement: append them at the end of the statement
	if pad > 0 {
		if _, simple := stmt.(*ast.IfStmt); simple || !endsStatement(stmt) {
			// compound statement: the lost lines cannot be restored without shifting its body
			return nil, nil, "multi-line call inside a compound statement"
		}
		st += strings.Repeat("\n", pad)
	}
	b.WriteString(st)
	return &textEdit{off(stmt.Pos()), off(stmt.End()), b.String()}, imports, ""
}

func endsStatement(s ast.Stmt) bool {
	switch s.(type) {
	case *ast.AssignStmt, *ast.DeclStmt, *ast.ReturnStmt, *ast.ExprStmt, *ast.SendStmt:
		return true
	}
	return false
}

// resyncTail appends what keeps the caller's following text on its original line numbers.
func resyncTail(repl string, src []byte, start, end int, startPos, endPos token.Position) string {
	return repl + fmt.Sprintf("\n//line %s:%d\n", endPos.Filename, endPos.Line)
}

func enclosingBody(fn ast.Node) *ast.BlockStmt {
	switch x := fn.(type) {
	case *ast.FuncDecl:
		return x.Body
	case *ast.FuncLit:
		return x.Body
	}
	return nil
}

// hoistable: within stmt the call is evaluated exactly once, unconditionally, and nothing with an effect is
// evaluated before it; "" if so, else the reason.
func hoistable(info *types.Info, stmt ast.Stmt, call *ast.CallExpr) string {
	// the roots of stmt in which the call may sit
	var roots []ast.Node
	switch s := stmt.(type) {
	case *ast.ExprStmt:
		roots = []ast.Node{s.X}
	case *ast.AssignStmt:
		for _, l := range s.Lhs {
			if hasEffect(info, l, nil) {
				return "left-hand side has calls"
			}
		}
		for _, r := range s.Rhs {
			roots = append(roots, r)
		}
	case *ast.DeclStmt:
		gd, ok := s.Decl.(*ast.GenDecl)
		if !ok || gd.Tok != token.VAR || len(gd.Specs) != 1 {
			return "declaration form"
		}
		for _, v := range gd.Specs[0].(*ast.ValueSpec).Values {
			roots = append(roots, v)
		}
	case *ast.ReturnStmt:
		for _, r := range s.Results {
			roots = append(roots, r)
		}
	case *ast.SendStmt:
		if hasEffect(info, s.Chan, nil) {
			return "channel operand has calls"
		}
		roots = []ast.Node{s.Value}
	case *ast.IfStmt:
		if s.Init != nil {
			if w := hoistable(info, s.Init, call); w == "" {
				return ""
			} else if within(s.Init, call) {
				return w
			}
			if hasEffect(info, s.Init, nil) {
				return "if-init has effects before the call"
			}
		}
		roots = []ast.Node{s.Cond}
	case *ast.SwitchStmt:
		if s.Init != nil {
			if w := hoistable(info, s.Init, call); w == "" {
				return ""
			} else if within(s.Init, call) {
				return w
			}
			if hasEffect(info, s.Init, nil) {
				return "switch-init has effects before the call"
			}
		}
		if s.Tag == nil {
			return "call is not in init or tag of the switch"
		}
		roots = []ast.Node{s.Tag}
	case *ast.RangeStmt:
		roots = []ast.Node{s.X}
	default:
		return fmt.Sprintf("statement form %T", stmt)
	}
	for _, r := range roots {
		if !within(r, call) {
			if r.End() <= call.Pos() && hasEffect(info, r, nil) {
				return "an earlier operand has effects"
			}
			continue
		}
		// path from r down to the call
		var path []ast.Node
		var find func(n ast.Node) bool
		find = func(n ast.Node) bool {
			found := false
			ast.Inspect(n, func(m ast.Node) bool {
				if m == nil || found {
					return false
				}
				if m == ast.Node(call) {
					found = true
					return false
				}
				return true
			})
			return found
		}
		cur := r
		for cur != ast.Node(call) {
			path = append(path, cur)
			var next ast.Node
			switch x := cur.(type) {
			case *ast.ParenExpr:
				next = x.X
			case *ast.UnaryExpr:
				if x.Op == token.ARROW {
					return "call under a receive"
				}
				next = x.X
			case *ast.StarExpr:
				next = x.X
			case *ast.BinaryExpr:
				if find(x.X) {
					next = x.X
				} else {
					if x.Op == token.LAND || x.Op == token.LOR {
						return "call is evaluated conditionally (&& / ||)"
					}
					if hasEffect(info, x.X, nil) {
						return "an earlier operand has effects"
					}
					next = x.Y
				}
			case *ast.SelectorExpr:
				next = x.X
			case *ast.IndexExpr:
				if find(x.X) {
					next = x.X
				} else {
					if hasEffect(info, x.X, nil) {
						return "an earlier operand has effects"
					}
					next = x.Index
				}
			case *ast.SliceExpr:
				if !find(x.X) {
					return "call in a slice bound"
				}
				next = x.X
			case *ast.TypeAssertExpr:
				next = x.X
			case *ast.KeyValueExpr:
				if !find(x.Value) {
					return "call in a composite key"
				}
				next = x.Value
			case *ast.CompositeLit:
				for _, el := range x.Elts {
					if find(el) {
						next = el
						break
					}
					if hasEffect(info, el, nil) {
						return "an earlier element has effects"
					}
				}
			case *ast.CallExpr:
				// the call is an operand of an outer call
				if find(x.Fun) {
					next = x.Fun
					break
				}
				if hasEffect(info, x.Fun, nil) {
					return "an earlier operand has effects"
				}
				for _, a := range x.Args {
					if find(a) {
						next = a
						break
					}
					if hasEffect(info, a, nil) {
						return "an earlier argument has effects"
					}
				}
			default:
				return fmt.Sprintf("call nested in %T", cur)
			}
			if next == nil {
				return "call not found on the expression path"
			}
			cur = next
		}
		return ""
	}
	return "call is not among the statement's operands"
}

func within(n ast.Node, c *ast.CallExpr) bool {
	return n != nil && n.Pos() <= c.Pos() && c.End() <= n.End()
}

// hasEffect: the node contains a call (other than a conversion or a pure builtin), a receive or a function literal
// call.
func hasEffect(info *types.Info, n ast.Node, except *ast.CallExpr) bool {
	eff := false
	ast.Inspect(n, func(m ast.Node) bool {
		switch x := m.(type) {
		case *ast.FuncLit:
			return false
		case *ast.UnaryExpr:
			if x.Op == token.ARROW {
				eff = true
			}
		case *ast.CallExpr:
			if x == except {
				return true
			}
			if tv, ok := info.Types[x.Fun]; ok && tv.IsType() {
				return true // conversion
			}
			if sel, ok := ast.Unparen(x.Fun).(*ast.SelectorExpr); ok && strings.HasPrefix(sel.Sel.Name, "Get") && len(x.Args) == 0 {
				// generated protobuf getters are pure (nil-safe field reads)
				if s := info.Selections[sel]; s != nil && s.Kind() == types.MethodVal {
					if fn, ok := s.Obj().(*types.Func); ok && fn.Pkg() != nil && fn.Pkg().Path() == protoPkg {
						return true
					}
				}
			}
			if id, ok := ast.Unparen(x.Fun).(*ast.Ident); ok {
				if _, isB := info.Uses[id].(*types.Builtin); isB {
					switch id.Name {
					case "len", "cap", "new", "make", "min", "max", "real", "imag", "complex":
						return true
					}
				}
			}
			eff = true
		}
		return true
	})
	return eff
}

// freeNamesAgree: every package-level, universe or imported name used in the helper's body and signature resolves
// to the same thing at pos in the caller's file; returns the imports that have to be added, or a reason.
func freeNamesAgree(fset *token.FileSet, pk *packages.Package, file *ast.File, pos token.Pos, h *helperInfo) (map[string]string, string) {
	inner := pk.Types.Scope().Innermost(pos)
	if inner == nil {
		return nil, "no scope at the call site"
	}
	fileImports := map[string]string{} // local name → path
	for _, im := range file.Imports {
		path := strings.Trim(im.Path.Value, `"`)
		name := ""
		if im.Name != nil {
			name = im.Name.Name
		} else if p := importedPkg(pk, path); p != nil {
			name = p.Name()
		}
		if name != "" && name != "_" && name != "." {
			fileImports[name] = path
		}
	}
	add := map[string]string{}
	why := ""
	check := func(id *ast.Ident) {
		if why != "" {
			return
		}
		o := h.pkg.TypesInfo.Uses[id]
		if o == nil {
			return
		}
		switch x := o.(type) {
		case *types.PkgName:
			path := x.Imported().Path()
			if _, cur := inner.LookupParent(id.Name, pos); cur != nil {
				if pn, ok := cur.(*types.PkgName); ok && pn.Imported().Path() == path {
					return
				}
				why = "name " + id.Name + " means something else at the call site"
				return
			}
			if p, ok := fileImports[id.Name]; ok && p == path {
				return
			}
			if _, ok := fileImports[id.Name]; ok {
				why = "import name " + id.Name + " is taken in the caller's file"
				return
			}
			for _, p := range fileImports {
				if p == path {
					why = "package " + path + " is imported under another name in the caller's file"
					return
				}
			}
			add[id.Name] = path
		default:
			if v, ok := o.(*types.Var); ok && v.IsField() {
				return
			}
			par := o.Parent()
			if par == nil {
				return // methods, fields
			}
			if par != h.pkg.Types.Scope() && par != types.Universe {
				return // the helper's own parameters and locals
			}
			_, cur := inner.LookupParent(id.Name, pos)
			if cur != o {
				why = "name " + id.Name + " is shadowed at the call site"
			}
		}
	}
	visit := func(n ast.Node) {
		if n == nil {
			return
		}
		ast.Inspect(n, func(m ast.Node) bool {
			switch x := m.(type) {
			case *ast.SelectorExpr:
				// only the operand is scope-resolved
				ast.Inspect(x.X, func(k ast.Node) bool {
					if id, ok := k.(*ast.Ident); ok {
						check(id)
					}
					return true
				})
				return false
			case *ast.KeyValueExpr:
				// struct literal keys are field names; map keys are expressions — check resolves fields away
				return true
			case *ast.Ident:
				check(x)
			}
			return true
		})
	}
	if h.decl.Recv != nil {
		visit(h.decl.Recv.List[0].Type)
	}
	visit(h.decl.Type)
	visit(h.decl.Body)
	if why != "" {
		return nil, why
	}
	if fset.File(file.Pos()).Name() == fset.File(h.file.Pos()).Name() {
		add = map[string]string{}
	}
	return add, ""
}

func importedPkg(pk *packages.Package, path string) *types.Package {
	if ip, ok := pk.Imports[path]; ok && ip.Types != nil {
		return ip.Types
	}
	return nil
}

// ---- error threading ----

type threadCtx struct {
	prefix string    // re-declaration of the caller's variables from the result temporaries (+ blank uses)
	tText  string    // text of the guard's body
	tStart token.Pos // position of the guard body's opening brace
	pk     *packages.Package
	nodes  []ast.Node // caller nodes whose identifiers are copied (guard body, assignment)
	form   string     // how the guard tests the k-th assigned variable: "!", "!=nil", "==nil", "!=str", "==str"
	k      int
	defs   map[string]bool
}

// threadContext recognises `… , err := call` followed by `if err != nil { T }` (or the if-init form), T ending in a
// return and containing no unlabelled break / continue / goto.
func threadContext(pk *packages.Package, src []byte, off func(token.Pos) int, stmt ast.Stmt, parent ast.Node, call *ast.CallExpr, lhsTemps []string, lastType string) *threadCtx {
	nres := len(lhsTemps)
	if nres == 0 {
		return nil
	}
	replaceCall := func(n ast.Node) string {
		return string(src[off(n.Pos()):off(call.Pos())]) + strings.Join(lhsTemps, ", ") + string(src[off(call.End()):off(n.End())])
	}
	var assign ast.Stmt
	var guard *ast.IfStmt
	switch s := stmt.(type) {
	case *ast.AssignStmt:
		if len(s.Rhs) != 1 || ast.Unparen(s.Rhs[0]) != ast.Expr(call) {
			return nil
		}
		assign = s
		var list []ast.Stmt
		switch par := parent.(type) {
		case *ast.BlockStmt:
			list = par.List
		case *ast.CaseClause:
			list = par.Body
		case *ast.CommClause:
			list = par.Body
		}
		for i, x := range list {
			if x == stmt && i+1 < len(list) {
				guard, _ = list[i+1].(*ast.IfStmt)
			}
		}
		if guard == nil || guard.Init != nil {
			return nil
		}
	case *ast.IfStmt:
		a, ok := s.Init.(*ast.AssignStmt)
		if !ok || len(a.Rhs) != 1 || ast.Unparen(a.Rhs[0]) != ast.Expr(call) {
			return nil
		}
		assign, guard = a, s
	default:
		return nil
	}
	as := assign.(*ast.AssignStmt)
	if guard.Else != nil || len(as.Lhs) == 0 {
		return nil
	}
	// the guard tests one of the assigned variables against its zero value
	lhsIdx := func(name string) int {
		for k, l := range as.Lhs {
			if id, ok := l.(*ast.Ident); ok && id.Name == name && name != "_" {
				return k
			}
		}
		return -1
	}
	form, k := "", -1
	switch c := ast.Unparen(guard.Cond).(type) {
	case *ast.UnaryExpr:
		if id, ok := ast.Unparen(c.X).(*ast.Ident); ok && c.Op == token.NOT {
			form, k = "!", lhsIdx(id.Name)
		}
	case *ast.BinaryExpr:
		if c.Op == token.NEQ || c.Op == token.EQL {
			x, y := ast.Unparen(c.X), ast.Unparen(c.Y)
			if _, isId := x.(*ast.Ident); !isId {
				x, y = y, x
			}
			if id, ok := x.(*ast.Ident); ok {
				switch z := y.(type) {
				case *ast.Ident:
					if z.Name == "nil" {
						form, k = c.Op.String()+"nil", lhsIdx(id.Name)
					}
				case *ast.BasicLit:
					if z.Kind == token.STRING && (z.Value == `""` || z.Value == "``") {
						form, k = c.Op.String()+"str", lhsIdx(id.Name)
					}
				}
			}
		}
	}
	if k < 0 || len(as.Lhs) != nres {
		return nil
	}
	if form == "!=nil" && !(k == nres-1 && lastType == "error") {
		return nil // "non-nil means failure" is only recognised for a trailing error
	}
	body := guard.Body
	if len(body.List) == 0 {
		return nil
	}
	if _, isRet := body.List[len(body.List)-1].(*ast.ReturnStmt); !isRet {
		return nil
	}
	bad := false
	ast.Inspect(body, func(n ast.Node) bool {
		switch b := n.(type) {
		case *ast.FuncLit:
			return false
		case *ast.BranchStmt:
			if b.Label == nil || b.Tok == token.GOTO {
				bad = true
			}
		case *ast.LabeledStmt:
			bad = true
		}
		return true
	})
	if bad {
		return nil
	}
	th := &threadCtx{pk: pk, tStart: body.Lbrace, defs: map[string]bool{}, form: form, k: k}
	th.prefix = replaceCall(assign)
	for _, l := range as.Lhs {
		if id, ok := l.(*ast.Ident); ok && id.Name != "_" {
			if as.Tok == token.DEFINE && pk.TypesInfo.Defs[id] != nil {
				th.defs[id.Name] = true
				th.prefix += "; _ = " + id.Name
			}
		}
	}
	th.prefix += "; "
	th.tText = string(src[off(body.Lbrace)+1 : off(body.Rbrace)])
	th.nodes = []ast.Node{body}
	for _, l := range as.Lhs {
		th.nodes = append(th.nodes, l)
	}
	return th
}

// shadowedAt: some name the copied caller text uses is declared by the helper around pos (so the copy would bind
// differently there).
func (th *threadCtx) shadowedAt(h *helperInfo, pos token.Pos) bool {
	inner := h.pkg.Types.Scope().Innermost(pos)
	if inner == nil {
		return true
	}
	shadow := false
	for _, n := range th.nodes {
		ast.Inspect(n, func(m ast.Node) bool {
			switch x := m.(type) {
			case *ast.SelectorExpr:
				ast.Inspect(x.X, func(k ast.Node) bool {
					if id, ok := k.(*ast.Ident); ok {
						th.checkIdent(id, inner, pos, h, &shadow)
					}
					return true
				})
				return false
			case *ast.Ident:
				th.checkIdent(x, inner, pos, h, &shadow)
			}
			return true
		})
	}
	return shadow
}

func (th *threadCtx) checkIdent(id *ast.Ident, inner *types.Scope, pos token.Pos, h *helperInfo, shadow *bool) {
	if th.defs[id.Name] || id.Name == "_" {
		return
	}
	o := th.pk.TypesInfo.Uses[id]
	if o == nil {
		return
	}
	if v, ok := o.(*types.Var); ok && v.IsField() {
		return
	}
	_, cur := inner.LookupParent(id.Name, pos)
	if cur == nil {
		return // a caller local with no namesake in the helper
	}
	if pn, ok := o.(*types.PkgName); ok {
		if cn, ok := cur.(*types.PkgName); ok && cn.Imported().Path() == pn.Imported().Path() {
			return
		}
		*shadow = true
		return
	}
	if cur != o {
		*shadow = true
	}
}

// certainlyError: the last result of this return is an error value that cannot be nil: a freshly made error, or a
// variable tested `!= nil` by an enclosing if with no assignment to it in between.
// certainlyFailure: the result of this return that the caller's guard tests certainly takes the guarded branch: the
// literal false under `if !ok`, the literal nil under `if v == nil`, a non-empty / the empty string literal under
// `if s != ""` / `if s == ""`, a certainly non-nil error under `if err != nil`.
func certainlyFailure(info *types.Info, body *ast.BlockStmt, r *ast.ReturnStmt, th *threadCtx) bool {
	if th.k >= len(r.Results) {
		return false
	}
	e := ast.Unparen(r.Results[th.k])
	switch th.form {
	case "!":
		id, ok := e.(*ast.Ident)
		return ok && id.Name == "false" && info.Uses[id] == types.Universe.Lookup("false")
	case "==nil":
		id, ok := e.(*ast.Ident)
		return ok && id.Name == "nil" && info.Uses[id] == types.Universe.Lookup("nil")
	case "!=str":
		bl, ok := e.(*ast.BasicLit)
		return ok && bl.Kind == token.STRING && len(bl.Value) > 2
	case "==str":
		bl, ok := e.(*ast.BasicLit)
		return ok && bl.Kind == token.STRING && len(bl.Value) == 2
	case "!=nil":
		return certainlyError(info, body, r)
	}
	return false
}

func certainlyError(info *types.Info, body *ast.BlockStmt, r *ast.ReturnStmt) bool {
	if len(r.Results) == 0 {
		return false
	}
	last := ast.Unparen(r.Results[len(r.Results)-1])
	switch x := last.(type) {
	case *ast.CallExpr:
		if sel, ok := ast.Unparen(x.Fun).(*ast.SelectorExpr); ok {
			if id, ok := sel.X.(*ast.Ident); ok {
				if pn, ok := info.Uses[id].(*types.PkgName); ok {
					switch pn.Imported().Path() + "." + sel.Sel.Name {
					case "errors.New", "fmt.Errorf", "google.golang.org/grpc/status.Error", "google.golang.org/grpc/status.Errorf":
						return true
					}
				}
			}
		}
	case *ast.Ident:
		obj := info.Uses[x]
		if obj == nil {
			return false
		}
		// find the chain of enclosing nodes
		var chain []ast.Node
		var stack []ast.Node
		ast.Inspect(body, func(n ast.Node) bool {
			if n == nil {
				stack = stack[:len(stack)-1]
				return false
			}
			stack = append(stack, n)
			if n == ast.Node(r) {
				chain = append([]ast.Node{}, stack...)
			}
			return true
		})
		for i := len(chain) - 2; i >= 0; i-- {
			switch n := chain[i].(type) {
			case *ast.BlockStmt:
				continue
			case *ast.IfStmt:
				if i+1 < len(chain) && chain[i+1] == ast.Node(n.Body) {
					if be, ok := ast.Unparen(n.Cond).(*ast.BinaryExpr); ok && be.Op == token.NEQ {
						l, rr := ast.Unparen(be.X), ast.Unparen(be.Y)
						match := func(a, b ast.Expr) bool {
							ia, ok1 := a.(*ast.Ident)
							ib, ok2 := b.(*ast.Ident)
							return ok1 && ok2 && info.Uses[ia] == obj && ib.Name == "nil"
						}
						if match(l, rr) || match(rr, l) {
							// no assignment to the variable inside the if body before the return
							assigned := false
							ast.Inspect(n.Body, func(m ast.Node) bool {
								switch a := m.(type) {
								case *ast.AssignStmt:
									for _, lh := range a.Lhs {
										if id, ok := lh.(*ast.Ident); ok && (info.Uses[id] == obj || info.Defs[id] == obj) {
											assigned = true
										}
									}
								case *ast.UnaryExpr:
									if a.Op == token.AND {
										if id, ok := ast.Unparen(a.X).(*ast.Ident); ok && info.Uses[id] == obj {
											assigned = true
										}
									}
								}
								return true
							})
							return !assigned
						}
					}
				}
				return false
			default:
				return false
			}
		}
	}
	return false
}

// ---- reclosure ----

// reclosePass: a new function H whose every use is a direct call from inside one declared function F, where F has
// fewer function literals than in the frozen inventory, is a closure of F that was moved out: it is turned back into
//   _hcN := func(<receiver>, <params>) <results> { <body> }
// at the top of F, and the calls into calls of that value. Returns the helpers handled.
func reclosePass(fset *token.FileSet, pkgs []*packages.Package, frozen []*invItem, helpers map[*types.Func]*helperInfo, overlay map[string][]byte, edits map[string][]textEdit, site *int, res *inlineResult) map[*types.Func]bool {
	done := map[*types.Func]bool{}
	frozenClosures := map[string]int{}
	for _, f := range frozen {
		if f.Kind == "func" || f.Kind == "method" {
			frozenClosures[f.key()] = f.NClosures
		}
	}
	curItem := map[types.Object]*invItem{}
	for _, it := range inventoryOf(pkgs) {
		if it.Kind == "func" || it.Kind == "method" {
			curItem[it.obj] = it
		}
	}
	type use struct {
		pk   *packages.Package
		file *ast.File
		decl *ast.FuncDecl
		call *ast.CallExpr // nil: a use that is not a direct call
	}
	uses := map[*types.Func][]use{}
	packages.Visit(pkgs, nil, func(pk *packages.Package) {
		if !strings.HasPrefix(pk.PkgPath, modPath) || pk.TypesInfo == nil {
			return
		}
		for _, file := range pk.Syntax {
			for _, d := range file.Decls {
				fd, ok := d.(*ast.FuncDecl)
				if !ok || fd.Body == nil {
					continue
				}
				calls := map[*ast.Ident]*ast.CallExpr{}
				ast.Inspect(fd, func(n ast.Node) bool {
					if c, ok := n.(*ast.CallExpr); ok {
						switch f := ast.Unparen(c.Fun).(type) {
						case *ast.Ident:
							calls[f] = c
						case *ast.SelectorExpr:
							calls[f.Sel] = c
						}
					}
					return true
				})
				ast.Inspect(fd, func(n ast.Node) bool {
					id, ok := n.(*ast.Ident)
					if !ok {
						return true
					}
					fn, ok := pk.TypesInfo.Uses[id].(*types.Func)
					if !ok || helpers[fn.Origin()] == nil {
						return true
					}
					uses[fn.Origin()] = append(uses[fn.Origin()], use{pk, file, fd, calls[id]})
					return true
				})
			}
		}
	})
	var order []*helperInfo
	for _, h := range helpers {
		order = append(order, h)
	}
	sort.Slice(order, func(i, j int) bool { return order[i].item.key() < order[j].item.key() })
	claimed := map[*ast.FuncDecl]int{}
	for _, h := range order {
		us := uses[h.obj]
		if len(us) == 0 || len(us) != h.uses || !h.plainOK && h.why != "variadic" {
			continue
		}
		F := us[0].decl
		ok := F != h.decl
		for _, u := range us {
			if u.decl != F || u.call == nil || u.pk != h.pkg {
				ok = false
			}
		}
		if !ok || F.Type.TypeParams != nil {
			continue
		}
		// calls that are a go / defer statement, or the whole body of a function literal, are restored by splicing
		wrapped := true
		for _, u := range us {
			if !wrappedCall(F, u.call) {
				wrapped = false
			}
		}
		if wrapped {
			continue
		}
		fo, _ := us[0].pk.TypesInfo.Defs[F.Name].(*types.Func)
		fit := curItem[fo]
		if fit == nil {
			continue
		}
		frz, known := frozenClosures[fit.key()]
		if !known || frz <= fit.NClosures+claimed[F] {
			continue // F has not lost a closure
		}
		pk, file := us[0].pk, us[0].file
		if _, why := freeNamesAgree(fset, pk, file, F.Body.Lbrace+1, h); why != "" {
			continue
		}
		if fset.File(file.Pos()).Name() != fset.File(h.file.Pos()).Name() {
			continue // different file: imports may differ; leave it to the splicing step
		}
		tf := fset.File(file.Pos())
		src, err := fileContent(tf.Name(), overlay)
		if err != nil {
			continue
		}
		hf := fset.File(h.decl.Pos())
		hsrc, err := fileContent(hf.Name(), overlay)
		if err != nil {
			continue
		}
		htext := func(n ast.Node) string { return string(hsrc[hf.Offset(n.Pos()):hf.Offset(n.End())]) }
		*site++
		name := fmt.Sprintf("_ihc%d", *site)
		var ps []string
		if h.decl.Recv != nil {
			rf := h.decl.Recv.List[0]
			rn := "_"
			if len(rf.Names) == 1 {
				rn = rf.Names[0].Name
			}
			ps = append(ps, rn+" "+htext(rf.Type))
		}
		if h.decl.Type.Params != nil {
			for _, fl := range h.decl.Type.Params.List {
				if len(fl.Names) == 0 {
					ps = append(ps, "_ "+htext(fl.Type))
				}
				for _, nm := range fl.Names {
					ps = append(ps, nm.Name+" "+htext(fl.Type))
				}
			}
		}
		resTxt := ""
		if h.decl.Type.Results != nil {
			resTxt = " " + htext(h.decl.Type.Results)
		}
		lb := fset.Position(F.Body.Lbrace)
		cb := fset.Position(h.decl.Body.Lbrace)
		var b strings.Builder
		fmt.Fprintf(&b, " %s := func(%s)%s {\n//line %s:%d\n", name, strings.Join(ps, ", "), resTxt, cb.Filename, cb.Line)
		b.WriteString(string(hsrc[hf.Offset(h.decl.Body.Lbrace)+1 : hf.Offset(h.decl.Body.Rbrace)]))
		fmt.Fprintf(&b, "}; _ = %s\n//line %s:%d\n", name, lb.Filename, lb.Line)
		fe := []textEdit{{tf.Offset(F.Body.Lbrace) + 1, tf.Offset(F.Body.Lbrace) + 1, b.String()}}
		bad := false
		for _, u := range us {
			c := u.call
			switch f := ast.Unparen(c.Fun).(type) {
			case *ast.Ident:
				fe = append(fe, textEdit{tf.Offset(c.Fun.Pos()), tf.Offset(c.Fun.End()), name})
			case *ast.SelectorExpr:
				s := pk.TypesInfo.Selections[f]
				if s == nil || s.Kind() != types.MethodVal || len(s.Index()) != 1 {
					bad = true
					break
				}
				adj := ""
				_, recvPtr := h.obj.Type().(*types.Signature).Recv().Type().(*types.Pointer)
				_, exprPtr := pk.TypesInfo.TypeOf(f.X).Underlying().(*types.Pointer)
				switch {
				case recvPtr && !exprPtr:
					adj = "&"
				case !recvPtr && exprPtr:
					adj = "*"
				}
				recv := adj + "(" + string(src[tf.Offset(f.X.Pos()):tf.Offset(f.X.End())]) + ")"
				sep := ""
				if len(c.Args) > 0 {
					sep = ", "
				}
				fe = append(fe, textEdit{tf.Offset(c.Pos()), tf.Offset(c.Lparen) + 1, name + "(" + recv + sep})
			default:
				bad = true
			}
		}
		if bad {
			continue
		}
		// the declaration goes
		start := hf.Offset(h.decl.Pos())
		if h.decl.Doc != nil {
			start = hf.Offset(h.decl.Doc.Pos())
		}
		end := hf.Offset(h.decl.End())
		fe = append(fe, textEdit{start, end, strings.Repeat("\n", strings.Count(string(hsrc[start:end]), "\n"))})
		// no overlap with edits already planned for this file
		clash := false
		for _, e := range fe {
			for _, o := range edits[tf.Name()] {
				if e.start < o.end && o.start < e.end || e.start == o.start {
					clash = true
				}
			}
		}
		if clash {
			continue
		}
		edits[tf.Name()] = append(edits[tf.Name()], fe...)
		claimed[F]++
		done[h.obj] = true
		res.notes = append(res.notes, fmt.Sprintf("helper %s turned back into a closure of %s (%d call sites)", strings.TrimPrefix(h.item.key(), h.item.Kind+"|"), strings.TrimPrefix(fit.key(), fit.Kind+"|"), len(us)))
	}
	return done
}

// wrappedCall: the call is the operand of a go / defer statement, or the only statement of a function literal.
func wrappedCall(root ast.Node, call *ast.CallExpr) bool {
	found := false
	ast.Inspect(root, func(n ast.Node) bool {
		switch x := n.(type) {
		case *ast.GoStmt:
			if x.Call == call {
				found = true
			}
		case *ast.DeferStmt:
			if x.Call == call {
				found = true
			}
		case *ast.FuncLit:
			if len(x.Body.List) == 1 {
				switch s := x.Body.List[0].(type) {
				case *ast.ExprStmt:
					if ast.Unparen(s.X) == ast.Expr(call) {
						found = true
					}
				case *ast.ReturnStmt:
					if len(s.Results) == 1 && ast.Unparen(s.Results[0]) == ast.Expr(call) {
						found = true
					}
				}
			}
		}
		return true
	})
	return found
}
