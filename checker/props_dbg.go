package main

import "golang.org/x/tools/go/ssa"

func init() {
	register(&propSpec{
		id: "GEN", explanation: "debug", ruleText: "debug",
		run: func(c *Ctx, thorough bool) {
			c.guard("G3", func() { ruleGuardedFields(c, "G3", nil) })
			c.guard("G4", func() { ruleCloseSendExclusion(c, "G4", nil) })
			c.guard("G4b", func() { ruleNoDoubleClose(c, "G4b", nil) })
			c.guard("G5", func() { ruleEscapable(c, "G5", c.p.Funcs, nil, nil) })
			c.guard("G6", func() { rulePanicReachability(c, "G6", nil) })
			c.guard("G7", func() { ruleOptionalSubMsgNilChecked(c, "G7", func(*ssa.Function) bool { return true }, nil) })
			c.guard("G8", func() { ruleCancelNotDropped(c, "G8") })
		},
	})
}
