package main

// E4 `facts` — predicates that hold on every path from function entry to an instruction.
// Forward must-dataflow over the SSA CFG: in(B) = ∩ over predecessors P of (out(P) ∪ edge(P→B)).
// Atoms speak about local access paths, not SSA registers, so that two loads of the same
// field are the same thing; stores kill atoms on the stored path.

import (
	"go/token"
	"sort"
	"strings"

	"golang.org/x/tools/go/ssa"
)

type AtomSet map[string]bool

func (a AtomSet) clone() AtomSet {
	o := make(AtomSet, len(a))
	for k := range a {
		o[k] = true
	}
	return o
}
func (a AtomSet) List() []string {
	var o []string
	for k := range a {
		o = append(o, k)
	}
	sort.Strings(o)
	return o
}
func (a AtomSet) String() string { return "[" + strings.Join(a.List(), " ∧ ") + "]" }

func atom(kind, path string, other ...string) string {
	if len(other) > 0 {
		return kind + "(" + path + "," + other[0] + ")"
	}
	return kind + "(" + path + ")"
}

func (a AtomSet) NonNil(path string) bool { return a[atom("nonnil", path)] }
func (a AtomSet) IsNil(path string) bool  { return a[atom("isnil", path)] }
func (a AtomSet) True(path string) bool   { return a[atom("true", path)] }
func (a AtomSet) False(path string) bool  { return a[atom("false", path)] }
func (a AtomSet) Eq(x, y string) bool     { return a[atom("eq", x, y)] || a[atom("eq", y, x)] }
func (a AtomSet) Neq(x, y string) bool    { return a[atom("neq", x, y)] || a[atom("neq", y, x)] }

// HasPrefixAtom: some atom of the given kind on a path with the given suffix (rule helper).
func (a AtomSet) AnyKindSuffix(kind, suffix string) bool {
	for k := range a {
		if strings.HasPrefix(k, kind+"(") && strings.Contains(k, suffix) {
			return true
		}
	}
	return false
}

type factResult struct {
	f   *ssa.Function
	in  map[*ssa.BasicBlock]AtomSet
	p   *Prog
	lp  map[ssa.Value]string
}

// lpath: local access path of a value.
func (p *Prog) lpath(v ssa.Value) string {
	switch x := v.(type) {
	case nil:
		return "_"
	case *ssa.Parameter:
		return "p:" + canonParam(x)
	case *ssa.FreeVar:
		if p.isParamCapture(x) {
			if pr := p.capturedParam(x); pr != nil {
				return "p:" + canonParam(pr)
			}
			return "p:" + x.Name()
		}
		return "fv:" + x.Name()
	case *ssa.Const:
		if x.Value == nil {
			return "const:nil"
		}
		return "const:" + x.Value.ExactString()
	case *ssa.Global:
		return "g:" + globalName(x)
	case *ssa.UnOp:
		if x.Op == token.MUL {
			return p.locPath(x.X)
		}
		if x.Op == token.ARROW {
			return "v:" + x.Name()
		}
		return "unop" + x.Op.String() + "(" + p.lpath(x.X) + ")"
	case *ssa.Field:
		return p.lpath(x.X) + "." + fieldName(x)
	case *ssa.FieldAddr:
		return "&" + p.locPath(x)
	case *ssa.ChangeType:
		return p.lpath(x.X)
	case *ssa.ChangeInterface:
		return p.lpath(x.X)
	case *ssa.MakeInterface:
		return p.lpath(x.X)
	case *ssa.Extract:
		switch t := x.Tuple.(type) {
		case *ssa.Lookup:
			if x.Index == 1 {
				return "has:" + p.lpath(t.X) + "[" + p.lpath(t.Index) + "]"
			}
			return "lookup:" + p.lpath(t.X) + "[" + p.lpath(t.Index) + "]"
		case *ssa.Call:
			return p.lpath(t) + "#" + string(rune('0'+x.Index))
		}
		return "v:" + x.Name()
	case *ssa.Call:
		cc := &x.Call
		if recv, f, ok := isPbGetter(cc); ok {
			return p.lpath(recv) + "." + f
		}
		if b, ok := cc.Value.(*ssa.Builtin); ok && b.Name() == "len" {
			return "len(" + p.lpath(cc.Args[0]) + ")"
		}
		// calls are identified by register: two calls are two values
		return "v:" + x.Name()
	case *ssa.Lookup:
		return "lookup:" + p.lpath(x.X) + "[" + p.lpath(x.Index) + "]"
	}
	return "v:" + v.Name()
}

// basePath: path of the struct a FieldAddr selects from; a nested FieldAddr (struct embedded by value)
// continues the path of the enclosing location.
func (p *Prog) basePath(x ssa.Value) string {
	if fa, ok := x.(*ssa.FieldAddr); ok {
		return p.locPath(fa)
	}
	return p.lpath(x)
}

// locPath: path of the location an address denotes.
func (p *Prog) locPath(addr ssa.Value) string {
	switch a := addr.(type) {
	case *ssa.FieldAddr:
		if len(fieldAlias) > 0 {
			// a field that moved into a new nested struct keeps the path it had: drop the nested segment
			if k, ok := rawOwnerKey(a); ok {
				if _, moved := fieldAlias[k]; moved {
					if inner, ok := a.X.(*ssa.FieldAddr); ok {
						return p.basePath(inner.X) + "." + fieldName(a)
					}
				}
			}
		}
		return p.basePath(a.X) + "." + fieldName(a)
	case *ssa.Alloc:
		if pn := p.paramCell(a); pn != "" {
			return "p:" + pn
		}
		n := a.Comment
		if n == "" || n == "complit" || n == "new" {
			n = a.Name()
		}
		return "cell:" + n
	case *ssa.FreeVar:
		for _, b := range p.freeVarBindings(a) {
			if al, ok := b.(*ssa.Alloc); ok {
				if pn := p.paramCell(al); pn != "" {
					return "p:" + pn
				}
			}
		}
		return "cell:" + a.Name()
	case *ssa.Global:
		return "g:" + globalName(a)
	case *ssa.IndexAddr:
		return p.lpath(a.X) + "[]"
	}
	return "*" + p.lpath(addr)
}

func negOp(op token.Token) token.Token {
	switch op {
	case token.LSS:
		return token.GEQ
	case token.GEQ:
		return token.LSS
	case token.GTR:
		return token.LEQ
	case token.LEQ:
		return token.GTR
	}
	return op
}

// atomsOf: atoms implied by cond having truth value pol.
func (r *factResult) atomsOf(cond ssa.Value, pol bool, out map[*ssa.BasicBlock]AtomSet, depth int) []string {
	p := r.p
	switch c := cond.(type) {
	case *ssa.UnOp:
		if c.Op == token.NOT {
			return r.atomsOf(c.X, !pol, out, depth)
		}
	case *ssa.BinOp:
		switch c.Op {
		case token.EQL, token.NEQ:
			eq := (c.Op == token.EQL) == pol
			x, y := c.X, c.Y
			if isNilConst(x) {
				x, y = y, x
			}
			if isNilConst(y) {
				if eq {
					return []string{atom("isnil", p.lpath(x))}
				}
				return []string{atom("nonnil", p.lpath(x))}
			}
			// bool compared with const
			if cb, ok := y.(*ssa.Const); ok && cb.Value != nil && cb.Value.Kind().String() == "Bool" {
				bv := cb.Value.ExactString() == "true"
				return r.atomsOf(x, eq == bv, out, depth)
			}
			px, py := p.lpath(x), p.lpath(y)
			if px > py {
				px, py = py, px
			}
			if eq {
				return []string{atom("eq", px, py)}
			}
			return []string{atom("neq", px, py)}
		case token.LSS, token.GTR, token.LEQ, token.GEQ:
			op := c.Op
			if !pol {
				op = negOp(op)
			}
			return []string{atom("cmp"+op.String(), p.lpath(c.X), p.lpath(c.Y))}
		}
	case *ssa.Phi:
		// x := a && b  lowers to phi(false, ..., b). True(phi) implies the non-constant edge and the facts on it.
		if depth < 3 && c.Type().String() == "bool" {
			var atoms []string
			if pol {
				nonConst := -1
				allOtherFalse := true
				for i, e := range c.Edges {
					if k, ok := e.(*ssa.Const); ok {
						if k.Value.ExactString() != "false" {
							allOtherFalse = false
						}
					} else {
						if nonConst >= 0 {
							allOtherFalse = false
						}
						nonConst = i
					}
				}
				if allOtherFalse && nonConst >= 0 {
					pred := c.Block().Preds[nonConst]
					atoms = append(atoms, r.atomsOf(c.Edges[nonConst], true, out, depth+1)...)
					if po, ok := out[pred]; ok {
						for k := range po {
							atoms = append(atoms, k)
						}
					}
				}
			}
			if pol {
				atoms = append(atoms, atom("true", p.lpath(c)))
			} else {
				atoms = append(atoms, atom("false", p.lpath(c)))
			}
			return atoms
		}
	}
	var extra []string
	if cl, ok := cond.(*ssa.Call); ok && depth < 3 {
		extra = r.helperAtoms(cl, pol, depth)
	}
	if pol {
		return append(extra, atom("true", p.lpath(cond)))
	}
	return append(extra, atom("false", p.lpath(cond)))
}

// helperAtoms: cond is a call of an in-scope bool helper; the atoms that hold at every return of the helper
// yielding `pol`, with the helper's parameter paths rewritten to the argument paths of this call
// (so that extracting a validation helper does not break a guard rule; bound: 3 nested helpers).
func (r *factResult) helperAtoms(cl *ssa.Call, pol bool, depth int) []string {
	p := r.p
	g := cl.Call.StaticCallee()
	if g == nil || !p.inScope[g] || g.Blocks == nil || g == r.f {
		return nil
	}
	if g.Signature.Results().Len() != 1 || g.Signature.Results().At(0).Type().String() != "bool" {
		return nil
	}
	gr := p.factsOf(g)
	var acc AtomSet
	for _, ret := range returnsOf(g) {
		v := retVals(ret)[0]
		fs := p.Facts(ret)
		if k, isC := v.(*ssa.Const); isC {
			if (k.Value.ExactString() == "true") != pol {
				continue
			}
		} else {
			for _, a := range gr.atomsOf(v, pol, map[*ssa.BasicBlock]AtomSet{}, depth+1) {
				fs[a] = true
			}
		}
		if acc == nil {
			acc = fs.clone()
		} else {
			for a := range acc {
				if !fs[a] {
					delete(acc, a)
				}
			}
		}
	}
	var out []string
	for a := range acc {
		// rewrite parameter paths to argument paths
		b := a
		okAll := true
		for i, pr := range g.Params {
			if i >= len(cl.Call.Args) {
				break
			}
			from := "p:" + pr.Name()
			if !mentionsPath(b, from) {
				continue
			}
			b = replacePath(b, from, p.lpath(cl.Call.Args[i]))
		}
		// atoms about the helper's own registers do not translate
		if strings.Contains(b, "v:") && b == a && strings.Contains(a, "v:") {
			okAll = false
		}
		if strings.Contains(b, "cell:") {
			okAll = false
		}
		if okAll {
			out = append(out, b)
		}
	}
	sort.Strings(out)
	return out
}

func mentionsPath(atomStr, path string) bool {
	i := strings.IndexByte(atomStr, '(')
	if i < 0 {
		return false
	}
	return mentions(atomStr[i+1:len(atomStr)-1], path)
}

// replacePath substitutes every occurrence of path `from` (at a path boundary) by `to`.
func replacePath(s, from, to string) string {
	var sb strings.Builder
	i := 0
	for i < len(s) {
		j := strings.Index(s[i:], from)
		if j < 0 {
			sb.WriteString(s[i:])
			break
		}
		st := i + j
		end := st + len(from)
		startOK := st == 0 || strings.ContainsRune(",([: ", rune(s[st-1]))
		endOK := end == len(s) || strings.ContainsRune(".#[),]", rune(s[end]))
		sb.WriteString(s[i:st])
		if startOK && endOK {
			sb.WriteString(to)
		} else {
			sb.WriteString(from)
		}
		i = end
	}
	return sb.String()
}

func pathHasPrefix(path, pre string) bool {
	if !strings.HasPrefix(path, pre) {
		return false
	}
	if len(path) == len(pre) {
		return true
	}
	switch path[len(pre)] {
	case '.', '#', '[', ')', ',':
		return true
	}
	return false
}

// kill removes atoms that mention location path pre (or something reached through it).
func kill(s AtomSet, pre string) {
	for k := range s {
		// atoms look like kind(path) or kind(path,other)
		i := strings.IndexByte(k, '(')
		body := k[i+1 : len(k)-1]
		if mentions(body, pre) {
			delete(s, k)
		}
	}
}

func mentions(body, pre string) bool {
	idx := 0
	for {
		j := strings.Index(body[idx:], pre)
		if j < 0 {
			return false
		}
		st := idx + j
		// must start at a path boundary
		if st == 0 || strings.ContainsRune(",([:", rune(body[st-1])) || body[st-1] == ' ' {
			end := st + len(pre)
			if end == len(body) || strings.ContainsRune(".#[),]", rune(body[end])) {
				return true
			}
		}
		idx = st + 1
		if idx >= len(body) {
			return false
		}
	}
}

func (r *factResult) transfer(s AtomSet, i ssa.Instruction) {
	p := r.p
	switch x := i.(type) {
	case *ssa.Store:
		kill(s, p.locPath(x.Addr))
	case *ssa.MapUpdate:
		mp := p.lpath(x.Map)
		kill(s, "has:"+mp)
		kill(s, "lookup:"+mp)
		for k := range s {
			if strings.Contains(k, "has:"+mp+"[") || strings.Contains(k, "lookup:"+mp+"[") {
				delete(s, k)
			}
		}
	case ssa.CallInstruction:
		cc := x.Common()
		if b, ok := cc.Value.(*ssa.Builtin); ok && b.Name() == "delete" {
			mp := p.lpath(cc.Args[0])
			for k := range s {
				if strings.Contains(k, "has:"+mp+"[") || strings.Contains(k, "lookup:"+mp+"[") {
					delete(s, k)
				}
			}
		}
		// a user callback (dynamic call of a function value that is not a local closure) given a
		// pointer to a message may rewrite the message: kill what is known about its fields.
		if !cc.IsInvoke() && cc.StaticCallee() == nil {
			if _, isB := cc.Value.(*ssa.Builtin); !isB {
				for _, a := range cc.Args {
					if isProtoMsg(a.Type()) {
						pre := p.lpath(a)
						for k := range s {
							i := strings.IndexByte(k, '(')
							body := k[i+1 : len(k)-1]
							if strings.Contains(body, pre+".") {
								delete(s, k)
							}
						}
					}
				}
			}
		}
	}
}

func (p *Prog) factsOf(f *ssa.Function) *factResult {
	if p.factsMemo == nil {
		p.factsMemo = map[*ssa.Function]*factResult{}
	}
	if r, ok := p.factsMemo[f]; ok {
		return r
	}
	r := &factResult{f: f, p: p, in: map[*ssa.BasicBlock]AtomSet{}}
	p.factsMemo[f] = r
	out := map[*ssa.BasicBlock]AtomSet{}
	if len(f.Blocks) == 0 {
		return r
	}
	r.in[f.Blocks[0]] = AtomSet{}
	blockOut := func(b *ssa.BasicBlock) AtomSet {
		s := r.in[b].clone()
		for _, i := range b.Instrs {
			r.transfer(s, i)
		}
		return s
	}
	changed := true
	for iter := 0; changed && iter < 50; iter++ {
		changed = false
		for _, b := range f.Blocks {
			if b != f.Blocks[0] {
				var acc AtomSet
				for pi, pr := range b.Preds {
					_ = pi
					po, ok := out[pr]
					if !ok {
						continue // ⊤
					}
					if p.noReturn(pr) {
						continue // block ends in a call that never returns (zerolog Panic/Fatal)
					}
					if len(pr.Succs) == 2 && pr.Succs[0] != pr.Succs[1] {
						si := 1
						if pr.Succs[0] == b {
							si = 0
						}
						if deadEdge(pr, si) {
							continue // nil != nil: never taken
						}
					}
					e := po.clone()
					if ifi, ok := pr.Instrs[len(pr.Instrs)-1].(*ssa.If); ok && pr.Succs[0] != pr.Succs[1] {
						pol := pr.Succs[0] == b
						for _, a := range r.atomsOf(ifi.Cond, pol, out, 0) {
							e[a] = true
						}
					}
					if acc == nil {
						acc = e
					} else {
						for k := range acc {
							if !e[k] {
								delete(acc, k)
							}
						}
					}
				}
				if acc == nil {
					continue
				}
				old, had := r.in[b]
				if !had || !sameSet(old, acc) {
					r.in[b] = acc
					changed = true
				}
			}
			if _, ok := r.in[b]; ok {
				no := blockOut(b)
				if o, had := out[b]; !had || !sameSet(o, no) {
					out[b] = no
					changed = true
				}
			}
		}
	}
	return r
}

func sameSet(a, b AtomSet) bool {
	if len(a) != len(b) {
		return false
	}
	for k := range a {
		if !b[k] {
			return false
		}
	}
	return true
}

// Facts: atoms that hold just before instruction i executes.
func (p *Prog) Facts(i ssa.Instruction) AtomSet {
	r := p.factsOf(i.Parent())
	in, ok := r.in[i.Block()]
	if !ok {
		return AtomSet{} // unreachable block
	}
	s := in.clone()
	for _, x := range i.Block().Instrs {
		if x == i {
			break
		}
		r.transfer(s, x)
	}
	return s
}

// Reachable reports whether i's block is reachable from entry (per the facts fixpoint).
func (p *Prog) Reachable(i ssa.Instruction) bool {
	_, ok := p.factsOf(i.Parent()).in[i.Block()]
	return ok
}

var noReturnCalls = map[string]bool{
	"github.com/rs/zerolog/log.Panic":      true,
	"github.com/rs/zerolog/log.Fatal":      true,
	"(*github.com/rs/zerolog.Logger).Panic": true,
	"(*github.com/rs/zerolog.Logger).Fatal": true,
	"(github.com/rs/zerolog.Logger).Panic":  true,
	"(github.com/rs/zerolog.Logger).Fatal":  true,
	"os.Exit": true,
}

// noReturn: control never leaves block b through its successors (it creates a zerolog Panic/Fatal
// event, whose Msg/Msgf/Send panics or exits).
func (p *Prog) noReturn(b *ssa.BasicBlock) bool {
	if p.noRet == nil {
		p.noRet = map[*ssa.BasicBlock]bool{}
	}
	if v, ok := p.noRet[b]; ok {
		return v
	}
	r := false
	for _, i := range b.Instrs {
		if c, ok := i.(*ssa.Call); ok && noReturnCalls[calleeName(&c.Call)] {
			r = true
		}
	}
	p.noRet[b] = r
	return r
}

// paramCell: the alloc is the spill cell of a parameter that is never reassigned (captured by a closure);
// returns the parameter's name.
func (p *Prog) paramCell(a *ssa.Alloc) string {
	st := p.cellStores(a)
	if len(st) != 1 {
		return ""
	}
	if pr, ok := st[0].Val.(*ssa.Parameter); ok && pr.Parent() == a.Parent() {
		return canonParam(pr)
	}
	return ""
}

// Canonical parameter names: facts and rules speak about parameters by the name they have on the pinned tree;
// renaming a parameter or a receiver in the source must not unbind a rule. Receivers are canonical per receiver
// type, other parameters per (function name, position).
var canonRecv = map[string]string{
	"goat.handler": "h", "goat.Server": "s", "server.serverStream": "ss", "server.unaryServerTransportStream": "sts",
	"server.serverTransportStream": "sts", "client.RpcMultiplexer": "rm", "goat.ClientConn": "cc", "client.clientStream": "cs",
	"goat.Proxy": "p", "goat.proxyClient": "c", "goat.Demux": "gsd", "goat.demuxConn": "c", "goat.GoatOverHttp": "goh",
	"goat.httpReadWriter": "hrw", "goat.goatOverWebsocket": "ws", "int.fnReadWriter": "frw",
}

var canonParamAt = map[string]string{
	"errorIfDone#0": "rpc", "SendTrailer#1": "trErr", "contextFromHeaders#0": "parent", "contextFromHeaders#1": "h",
	"processStreamingRpc#1": "clientCtx", "processStreamingRpc#4": "rpc", "processUnaryRpc#1": "clientCtx", "processUnaryRpc#4": "rpc",
	"runStream#3": "rpc", "runStream#4": "streamId", "runStream#5": "ctx", "resetStream#1": "rpc",
	"parseGrpcTimeout#0": "timeout", "closeError#1": "err", "handleResponse#1": "rpc", "serve#1": "clientCtx",
	"forwardRpc#1": "source", "forwardRpc#2": "rpc", "readLoop#1": "ctx", "writeLoop#1": "ctx", "readWrite#1": "ctx", "connect#1": "ctx",
	"reportError#1": "ctx", "reportError#2": "err", "serveClients#1": "ctx", "ServeHTTP#1": "w", "ServeHTTP#2": "r",
	"StatsEndRPC#3": "appErr", "StatsEndRPC#0": "statsHandlers", "toStatusError#0": "err", "headersFromContext#0": "ctx",
	"invoke#1": "ctx", "invoke#3": "args", "invoke#4": "reply", "newStream#1": "ctx", "Invoke#1": "ctx", "NewStream#1": "ctx",
	"CallUnaryMethod#1": "ctx", "CallUnaryMethod#2": "header", "CallUnaryMethod#3": "body", "CallUnaryMethod#4": "statsHandlers",
	"registerHandler#1": "id", "registerHandler#2": "c", "unregisterHandler#1": "id", "unregisterStream#1": "id",
	"RecvMsg#1": "m", "SendMsg#1": "m", "Read#1": "ctx", "Write#1": "ctx", "Write#2": "rpc",
	"addOutgoingConnectionLocked#1": "id", "newConnLocked#1": "id", "Cancel#1": "id", "retrieve#1": "id", "unregisterLocked#1": "id",
	"getChainUnaryHandler#0": "interceptors", "getChainUnaryHandler#1": "curr", "getChainUnaryHandler#3": "finalHandler",
	"getChainStreamHandler#0": "interceptors", "getChainStreamHandler#1": "curr", "getChainStreamHandler#3": "finalHandler",
	"encodeGrpcTimeout#0": "timeout", "parseRawMethod#0": "sm", "setHeader#1": "md", "setHeaderLocked#1": "md",
}

func canonParam(pr *ssa.Parameter) string {
	f := pr.Parent()
	if f == nil || f.Parent() != nil {
		return pr.Name() // closures keep their own names
	}
	idx := -1
	for i, x := range f.Params {
		if x == pr {
			idx = i
		}
	}
	if idx == 0 && f.Signature.Recv() != nil {
		if n, ok := canonRecv[typeKey(f.Signature.Recv().Type())]; ok {
			return n
		}
	}
	if n, ok := canonParamAt[f.Name()+"#"+itoa(idx)]; ok {
		return n
	}
	return pr.Name()
}

// capturedParam: the parameter a by-value free variable is (transitively) bound to.
func (p *Prog) capturedParam(fv *ssa.FreeVar) *ssa.Parameter {
	for _, b := range p.freeVarBindings(fv) {
		switch x := b.(type) {
		case *ssa.Parameter:
			return x
		case *ssa.FreeVar:
			if pr := p.capturedParam(x); pr != nil {
				return pr
			}
		case *ssa.UnOp:
			if al, ok := x.X.(*ssa.Alloc); ok {
				if st := p.cellStores(al); len(st) == 1 {
					if pr, ok := st[0].Val.(*ssa.Parameter); ok {
						return pr
					}
				}
			}
		}
	}
	return nil
}

// isParamCapture: the free variable is bound (by value) to a parameter of an enclosing function, or to a
// free variable that is.
func (p *Prog) isParamCapture(fv *ssa.FreeVar) bool {
	bs := p.freeVarBindings(fv)
	if len(bs) == 0 {
		return false
	}
	for _, b := range bs {
		switch x := b.(type) {
		case *ssa.Parameter:
		case *ssa.FreeVar:
			if !p.isParamCapture(x) {
				return false
			}
		case *ssa.UnOp:
			al, ok := x.X.(*ssa.Alloc)
			if !ok || p.paramCell(al) == "" {
				return false
			}
		default:
			return false
		}
	}
	return true
}
