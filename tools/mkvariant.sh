#!/bin/bash
# usage: mkvariant.sh <name> <kind breaking|benign> <property> <expect-rules-comma> <file> <perl-subst> [<file> <perl-subst>...] -- "<breaks>" "<needs>"
# Creates /verif/seeded/<name>/{patch.diff,meta.json} from one-off edits of a scratch copy of /repo; checks that the variant builds
# and that the pinned suite still passes on it.
set -eu
export GOFLAGS=-mod=mod GOPROXY=off GOSUMDB=off GOTOOLCHAIN=local
unset GOWORK
name=$1; kind=$2; prop=$3; expect=$4; shift 4
d=$(mktemp -d /tmp/goatvar.XXXXXX)
rsync -a --exclude .git /repo/ $d/a/
rsync -a --exclude .git /repo/ $d/b/
while [ "$1" != "--" ]; do
  f=$1; e=$2; shift 2
  perl -0pi -e "$e" $d/b/$f
  if diff -q $d/a/$f $d/b/$f >/dev/null; then echo "EDIT DID NOT APPLY: $f"; rm -rf $d; exit 3; fi
done
shift
breaks=$1; needs=$2
(cd $d/b && go build ./... ) || { echo "VARIANT DOES NOT BUILD"; rm -rf $d; exit 4; }
tests="not run"
if (cd $d/b && go test -vet=off -count=1 -timeout 120s ./... >/dev/null 2>&1); then tests="pinned suite passes"; else tests="PINNED SUITE FAILS"; fi
mkdir -p /verif/seeded/$name
(cd $d && diff -ruN a b > /verif/seeded/$name/patch.diff) || true
python3 - "$name" "$kind" "$prop" "$expect" "$breaks" "$needs" "$tests" <<'PY'
import json,sys
name,kind,prop,expect,breaks,needs,tests=sys.argv[1:8]
json.dump({"id":name,"kind":kind,"property":prop,"expect":[e for e in expect.split(',') if e],"also_properties":[],
 "breaks":breaks,"needs_to_manifest":needs,"origin":"hand-written variant of the current tree",
 "ran":"go build ./... ok; "+tests+"; analysed by the thorough tier"},open(f"/verif/seeded/{name}/meta.json","w"),indent=1)
PY
echo "$name: $tests"
rm -rf $d
