#!/usr/bin/env python3
"""Re-runs all 20 quick checks against every breaking seeded variant (scratch copies) and refreshes
meta.json: caught_by, expect (rules under the filing property) and also_properties."""
import json, glob, os, re, subprocess, tempfile, shutil, sys
from concurrent.futures import ThreadPoolExecutor
env=dict(os.environ, GOFLAGS="-mod=mod", GOPROXY="off", GOSUMDB="off", GOTOOLCHAIN="local")
env.pop("GOWORK",None)
only=sys.argv[1:]
def run(d):
    mp=d+"meta.json"
    m=json.load(open(mp))
    if m.get("kind")=="benign": return None
    if only and m["id"] not in only: return None
    s=tempfile.mkdtemp(prefix="goatref")
    try:
        subprocess.run(["rsync","-a","--exclude",".git","/repo/",s+"/"],check=True)
        r=subprocess.run(["patch","-p1","-s","--forward","--no-backup-if-mismatch","-d",s,"-i",d+"patch.diff"],capture_output=True)
        if r.returncode!=0: return (m["id"],"patch does not apply",m)
        os.makedirs(s+"/.verif"); shutil.copy("/verif/known_findings.json",s+"/.verif/")
        caught={}
        for i in range(1,21):
            p="C%02d"%i
            o=subprocess.run(["/verif/bin/goatcheck",p,"quick"],capture_output=True,text=True,env=dict(env,GOAT_REPO=s,VERIF_DIR=s+"/.verif")).stdout
            if "\nVIOLATION property" in "\n"+o:
                rules=sorted(set(re.findall(r"^(?:VIOLATION|UNDECIDED) (C\d\d\.\w+)",o,re.M)))
                caught[p]=rules
        ip=m.get("intended_property",m["property"])
        prim=ip if ip in caught else (sorted(caught)[0] if caught else ip)
        m["property"]=prim; m["intended_property"]=ip
        m["expect"]=caught.get(prim,[])
        m["also_properties"]=[p for p in sorted(caught) if p!=prim]
        m.setdefault("caught_at_intake", m.get("caught_by",""))
        m["caught_by"]=" ".join(f"{p}[{','.join(r)}]" for p,r in sorted(caught.items())) or "NOTHING"
        m["kind"]="breaking" if caught else "missed"
        json.dump(m,open(mp,"w"),indent=1)
        return (m["id"],m["caught_by"],m)
    finally:
        shutil.rmtree(s,ignore_errors=True)
dirs=sorted(glob.glob("/verif/seeded/*/"))
with ThreadPoolExecutor(6) as ex:
    for r in ex.map(run,dirs):
        if r: print(r[0],"→",r[1])
