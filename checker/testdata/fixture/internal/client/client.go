package client
