package main

import (
	"fmt"
	"go/types"
	"strings"

	"golang.org/x/tools/go/ssa"
)

// readResult: the envelope value read by the single transport Read in f.
func (p *Prog) readResult(f *ssa.Function) (*ssa.Call, ssa.Value) {
	rs := p.transportOps(f, "Read", false)
	if len(rs) != 1 {
		panic(UnresolvedError{"the single transport Read in " + p.fnKey(f)})
	}
	ex := extractOf(rs[0], 0)
	if ex == nil {
		panic(UnresolvedError{"envelope result of Read in " + p.fnKey(f)})
	}
	return rs[0], ex
}

func sendOf(u chanUse) ssa.Value {
	switch x := u.instr.(type) {
	case *ssa.Send:
		return x.X
	case *ssa.Select:
		for _, st := range x.States {
			if st.Chan == u.ch && st.Dir == types.SendOnly {
				return st.Send
			}
		}
	}
	return nil
}

// ---- C02.3 ----
func ruleBodyForwarded(c *Ctx, rule string) {
	p := c.p
	f := p.MustFn("client.clientStream.readLoop")
	rd, rpc := p.readResult(f)
	rp := p.lpath(rpc)
	var sendI ssa.Instruction
	for _, u := range p.chanUsesIn(f) {
		if u.kind == "send" && p.chanDesc(u.ch) == "rCh" {
			sendI = u.instr
			sv := sendOf(u)
			ok := sv != nil && p.lpath(sv) == rp+".Body"
			c.check(rule, "readLoop:rCh-send-value", ok, fmt.Sprintf("value handed to RecvMsg is %s; required: the Body of the envelope just read (%s.Body)", p.lpath(sv), rp), p.ipos(u.instr))
			c.check(rule, "readLoop:rCh-send-guard", p.Facts(u.instr).NonNil(rp+".Body"), "send executes only with a body present", p.ipos(u.instr))
		}
	}
	if sendI == nil {
		panic(UnresolvedError{"send on rCh in clientStream.readLoop"})
	}
	// skip edges: branches after the Read that lead back to the Read without passing the send
	hdr := rd.Block()
	nskip := 0
	for _, b := range f.Blocks {
		if len(b.Instrs) == 0 || !hdr.Dominates(b) {
			continue
		}
		ifi, ok := b.Instrs[len(b.Instrs)-1].(*ssa.If)
		if !ok {
			continue
		}
		for si, s := range b.Succs {
			// does s lead back to hdr without passing sendI's block, while the other successor can reach the send?
			if !reachAvoiding(s, hdr, sendI.Block()) {
				continue
			}
			other := b.Succs[1-si]
			if !reachFrom(other)[sendI.Block()] || reachAvoiding(other, hdr, sendI.Block()) && !reachFrom(other)[sendI.Block()] {
				continue
			}
			if reachFrom(s)[sendI.Block()] && !reachAvoiding(s, hdr, sendI.Block()) {
				continue
			}
			// s skips the send on at least one path; if the send is also reachable from s via the loop only, it is a skip edge
			if pathToBefore(s, sendI.Block(), hdr) {
				continue // send reachable from s before returning to the loop head: not a skip
			}
			nskip++
			fr := p.factsOf(f)
			atoms := fr.atomsOf(ifi.Cond, si == 0, map[*ssa.BasicBlock]AtomSet{}, 0)
			ok := false
			for _, a := range atoms {
				if a == atom("isnil", rp+".Body") {
					ok = true
				}
			}
			c.check(rule, "readLoop:skip-edge", ok, fmt.Sprintf("an envelope is skipped (no hand-off, loop continues) under %v; allowed only when it carries no body", atoms), p.ipos(ifi))
		}
	}
	c.inv("skip_edges", nskip)
	// RecvMsg decodes the received body's Data, untouched, into m
	rm := p.MustFn("client.clientStream.RecvMsg")
	for _, um := range p.callsTo(rm, "Unmarshal", false) {
		src := p.Origins().Of(um.Common().Args[0])
		c.check(rule, "RecvMsg:decode-source", src.ContainsMatch("addr(field(Data,recv(_)))"), "decode source "+src.String()+" must be &(<-rCh).Data", p.ipos(um))
		c.check(rule, "RecvMsg:decode-target", p.sameValue(um.Common().Args[1], paramNamed(rm, "m")), "decoded into the caller's message", p.ipos(um))
	}
	srm := p.MustFn("server.serverStream.RecvMsg")
	_, srpc := p.readResult(srm)
	for _, um := range p.callsTo(srm, "Unmarshal", false) {
		src := p.Origins().Of(um.Common().Args[0])
		ok := false
		why := "decode source " + src.String()
		// &data where data := rpc.GetBody().GetData()
		for _, t := range src {
			t.Walk(func(x *Term) {
				if x.Op == "alloc" {
					if al, isA := p.Origins().allocs[x.Name].(*ssa.Alloc); isA {
						for _, s := range p.cellStores(al) {
							if p.lpath(s.Val) == p.lpath(srpc)+".Body.Data" {
								ok = true
							}
						}
					}
				}
			})
		}
		if src.ContainsMatch("addr(field(Data,field(Body,call(*Read#0,...))))") {
			ok = true
		}
		c.check(rule, "serverStream.RecvMsg:decode-source", ok, why+" must be the Body.Data of the envelope just read", p.ipos(um))
		c.check(rule, "serverStream.RecvMsg:decode-target", p.sameValue(um.Common().Args[1], paramNamed(srm, "m")), "decoded into the handler's message", p.ipos(um))
	}
}

// reachAvoiding: target reachable from s without entering avoid.
func reachAvoiding(s, target, avoid *ssa.BasicBlock) bool {
	seen := map[*ssa.BasicBlock]bool{avoid: true}
	st := []*ssa.BasicBlock{s}
	for len(st) > 0 {
		x := st[len(st)-1]
		st = st[:len(st)-1]
		if x == target {
			return true
		}
		if seen[x] {
			continue
		}
		seen[x] = true
		st = append(st, x.Succs...)
	}
	return false
}

// pathToBefore: target reachable from s without passing through barrier.
func pathToBefore(s, target, barrier *ssa.BasicBlock) bool {
	return reachAvoiding(s, target, barrier)
}

// ---- C02.4 ----
func eofReturns(p *Prog, f *ssa.Function, errIdx int) []*ssa.Return {
	var out []*ssa.Return
	for _, r := range returnsOf(f) {
		if errIdx >= len(r.Results) {
			continue
		}
		for _, t := range p.Origins().Of(retVals(r)[errIdx]) {
			if t.Op == "global" && t.Name == "io.EOF" {
				out = append(out, r)
			}
		}
	}
	return out
}

func hasCodeOK(fs AtomSet, rpcPath string) bool {
	return fs.Eq("const:0", rpcPath+".Status.Code")
}

func ruleEOFOnlyOnOKTrailer(c *Ctx, rule string) {
	p := c.p
	srm := p.MustFn("server.serverStream.RecvMsg")
	_, srpc := p.readResult(srm)
	sp := p.lpath(srpc)
	n := 0
	for _, r := range eofReturns(p, srm, 0) {
		n++
		fs := p.Facts(r)
		c.check(rule, "serverStream.RecvMsg:EOF", fs.NonNil(sp+".Trailer") && hasCodeOK(fs, sp), "io.EOF is returned under "+fs.String()+"; required: trailer present ∧ status code OK", p.ipos(r))
	}
	eid := p.MustFn("client.errorIfDone")
	for _, r := range eofReturns(p, eid, 1) {
		n++
		fs := p.Facts(r)
		c.check(rule, "errorIfDone:EOF", fs.NonNil("p:rpc.Trailer") && hasCodeOK(fs, "p:rpc"), "io.EOF is returned under "+fs.String()+"; required: trailer present ∧ status code OK", p.ipos(r))
	}
	c.floor(rule, "io.EOF returns", n, 2)
	// done ⇔ trailer present
	for _, r := range returnsOf(eid) {
		if len(r.Results) != 2 {
			continue
		}
		k, ok := retVals(r)[0].(*ssa.Const)
		if !ok {
			c.check(rule, "errorIfDone:done-flag", false, "done result is not a constant per return", p.ipos(r))
			continue
		}
		fs := p.Facts(r)
		if k.Value.ExactString() == "true" {
			c.check(rule, "errorIfDone:done⇒trailer", fs.NonNil("p:rpc.Trailer"), "done=true only with a trailer: "+fs.String(), p.ipos(r))
		} else {
			c.check(rule, "errorIfDone:¬done⇒¬trailer", fs.IsNil("p:rpc.Trailer"), "done=false only without a trailer: "+fs.String(), p.ipos(r))
		}
	}
}

// ---- C02.5 (conditional) ----
func ruleTerminalStateBeatsCancel(c *Ctx, rule string) {
	p := c.p
	// premise: the read loop's normal exit reaches the stream context's cancel function
	rl := p.MustFn("client.clientStream.readLoop")
	premise := false
	for g := range p.reachableFns(rl) {
		allInstrs(g, func(i ssa.Instruction) {
			if cl, ok := i.(*ssa.Call); ok && !cl.Call.IsInvoke() && cl.Call.StaticCallee() == nil {
				if p.Origins().Of(cl.Call.Value).ContainsMatch("call(context.WithCancel#1,...)") {
					premise = true
				}
			}
		})
	}
	c.inv("C02.5_premise_library_cancels_stream_ctx_at_completion", premise)
	if !premise {
		c.check(rule, "premise", true, "the library does not cancel the stream context at normal completion: rule vacuous", p.pos(rl.Pos()))
		return
	}
	rm := p.MustFn("client.clientStream.RecvMsg")
	n := 0
	for _, r := range returnsOf(rm) {
		if len(r.Results) != 1 {
			continue
		}
		// the value returned is directly toStatusError(ctx.Err()) / ctx.Err()
		isCtx := false
		if cl, ok := stripConv(retVals(r)[0]).(*ssa.Call); ok {
			for _, t := range p.Origins().Of(cl) {
				if Match(t, "call(client.toStatusError,call(*Context).Err,...))", nil) || Match(t, "call(*Context).Err,...)", nil) || Match(t, "call(client.toStatusError,call(*Context).Err#0,...))", nil) {
					isCtx = true
				}
			}
		}
		if !isCtx {
			continue
		}
		n++
		// a consultation of the terminal state (readErrorIfDone) dominated by the select and dominating the return
		var sel ssa.Instruction
		allInstrs(rm, func(i ssa.Instruction) {
			if s, ok := i.(*ssa.Select); ok && s.Blocking {
				sel = i
			}
		})
		ok := false
		for _, ci := range p.callsTo(rm, "client.clientStream.readErrorIfDone", false) {
			if sel != nil && instrDominates(sel, ci.(ssa.Instruction)) && instrDominates(ci.(ssa.Instruction), r) {
				ok = true
			}
		}
		c.check(rule, "RecvMsg:ctx-branch", ok, "the branch that saw ctx.Done() returns the context error without re-reading the terminal state; the library itself cancels that context when a stream completes, so a stream that ended with io.EOF can be reported Canceled (select picks at random among ready cases)", p.ipos(r))
	}
	c.floor(rule, "context-error returns in RecvMsg", n, 1)
}

// ---- C02.7 ----
func ruleHalfCloseAndFinalStatus(c *Ctx, rule string) {
	p := c.p
	env := p.envelopeIn("client.clientStream.CloseSend")
	okShape := env.Fields["Trailer"].Must && !env.Fields["Trailer"].MaybeNil && env.Fields["Status"].Must && !env.Fields["Status"].MaybeNil
	c.check(rule, "CloseSend:shape", okShape, "half-close envelope "+env.ShapeString()+" must carry a trailer and a status", p.ipos(env.At()))
	codeOK := false
	for _, t := range env.Fields["Status"].Origins {
		if al, ok := p.Origins().allocs[t.Name].(*ssa.Alloc); ok {
			for _, s := range p.allocFieldStores(al, "Code") {
				if v, isC := constInt(s.Val); isC && v == 0 {
					codeOK = true
				} else {
					codeOK = false
				}
			}
		}
	}
	c.check(rule, "CloseSend:status-OK", codeOK, "half-close status code is the constant OK (0)", p.ipos(env.At()))
	ws := p.transportOps(p.MustFn("client.clientStream.CloseSend"), "Write", false)
	c.check(rule, "CloseSend:written", len(ws) == 1 && p.sameValue(ws[0].Call.Args[1], env.Root()), "the half-close envelope is what is written", p.ipos(env.At()))

	rs := p.MustFn("goat.handler.runStream")
	var hsites []ssa.Instruction
	for _, op := range p.Blocks().ops[rs] {
		if strings.HasPrefix(op.Kind, "callback:") {
			hsites = append(hsites, op.Instr)
		}
	}
	isTrailer := func(i ssa.Instruction) bool {
		if cl, ok := i.(*ssa.Call); ok {
			if sc := cl.Call.StaticCallee(); sc != nil && p.fnKey(sc) == "server.serverStream.SendTrailer" {
				return true
			}
		}
		return false
	}
	for k, h := range hsites {
		bad := p.mustPass(h, isTrailer, false)
		c.check(rule, fmt.Sprintf("runStream:trailer-after-handler#%d", k+1), bad == nil, "every path from the handler's return to the function's exit sends the trailer", p.ipos(h))
	}
	c.floor(rule, "handler invocation sites in runStream", len(hsites), 2)
	// nothing that writes an envelope follows the trailer
	for _, ci := range p.callsTo(rs, "server.serverStream.SendTrailer", false) {
		after := noSecondBefore(ci.(ssa.Instruction), func(i ssa.Instruction) bool {
			if cl, ok := i.(*ssa.Call); ok {
				if sc := cl.Call.StaticCallee(); sc != nil && strings.HasPrefix(p.fnKey(sc), "server.serverStream.") && p.fnKey(sc) != "server.serverStream.SendTrailer" {
					return true
				}
				if cl.Call.IsInvoke() && cl.Call.Method.Name() == "Write" {
					return true
				}
			}
			return false
		}, func(ssa.Instruction) bool { return false })
		c.check(rule, "runStream:nothing-after-trailer", after == nil, "no envelope-writing call follows SendTrailer in runStream", p.ipos(ci.(ssa.Instruction)))
	}
}

// ---- C03 ----

// statusAllocs: local allocations of spb.Status / pb.ResponseStatus with stores to Code/Message/Details.
func ruleStatusTransfer(c *Ctx, rule string) {
	p := c.p
	e := p.Origins()
	n := 0
	for _, f := range p.Funcs {
		allInstrs(f, func(i ssa.Instruction) {
			a, ok := i.(*ssa.Alloc)
			if !ok {
				return
			}
			tk := typeKey(a.Type())
			if tk != "status.Status" && tk != "pb.ResponseStatus" {
				return
			}
			fields := []string{"Code", "Message", "Details"}
			srcs := map[string]map[string]bool{} // field → set of source roots (full strings)
			nonConst := 0
			bad := ""
			for _, fn := range fields {
				srcs[fn] = map[string]bool{}
				for _, s := range p.allocFieldStores(a, fn) {
					for _, t := range e.Of(s.Val) {
						if t.Op == "const" || t.Op == "call" && strings.Contains(t.Name, "codes.Code).String") {
							continue
						}
						env := map[string]string{}
						switch {
						case Match(t, "field("+fn+",$X)", env):
						case Match(t, "call(*Get"+fn+",$X)", env):
						default:
							if fn == "Code" && Match(t, "conv(_,const(_))", nil) {
								continue
							}
							bad = fmt.Sprintf("%s ← %s is not the %s of a source status", fn, t, fn)
							continue
						}
						srcs[fn][env["X"]] = true
					}
				}
				if len(srcs[fn]) > 0 {
					nonConst++
				}
			}
			if nonConst == 0 && bad == "" {
				return // constant status (half-close OK)
			}
			n++
			construct := p.fnKey(f) + ":" + tk
			if bad != "" {
				c.check(rule, construct, false, bad, p.ipos(a))
				return
			}
			ok2 := nonConst == 3
			why := "Code, Message and Details are each copied from the same-named field of one source status"
			if !ok2 {
				var missing []string
				for _, fn := range fields {
					if len(srcs[fn]) == 0 {
						missing = append(missing, fn)
					}
				}
				why = "status conversion drops " + strings.Join(missing, ",") + " (not copied from the source status)"
			} else {
				// same source across fields
				ref := sortedStrings(srcs["Code"])
				for _, fn := range fields[1:] {
					if strings.Join(sortedStrings(srcs[fn]), "|") != strings.Join(ref, "|") {
						ok2 = false
						why = "fields are copied from different source statuses"
					}
				}
			}
			c.check(rule, construct, ok2, why, p.ipos(a))
		})
	}
	c.floor(rule, "status conversion sites", n, 5)
}

func ruleStatusIffFailed(c *Ctx, rule string) {
	p := c.p
	pu := p.MustFn("goat.handler.processUnaryRpc")
	env := p.envelopeIn("goat.handler.processUnaryRpc")
	// appErr: error result of the handler invocation
	var hcall ssa.Instruction
	for _, op := range p.Blocks().ops[pu] {
		if op.Kind == "callback:grpc.MethodDesc.Handler" {
			hcall = op.Instr
		}
	}
	if hcall == nil {
		panic(UnresolvedError{"handler invocation in processUnaryRpc"})
	}
	errV := extractOf(hcall.(*ssa.Call), 1)
	if errV == nil {
		panic(UnresolvedError{"error result of the handler invocation"})
	}
	// the cell (or value) holding it
	errPath := p.lpath(errV)
	if refs := errV.Referrers(); refs != nil {
		for _, r := range *refs {
			if s, ok := r.(*ssa.Store); ok && s.Val == errV {
				errPath = p.locPath(s.Addr)
			}
		}
	}
	n := 0
	for _, t := range env.Fields["Status"].Origins {
		if t.Op != "alloc" {
			continue
		}
		al, ok := p.Origins().allocs[t.Name].(*ssa.Alloc)
		if !ok {
			continue
		}
		n++
		if h := al.Parent(); h != pu && rootFn(h) != pu {
			// the conversion lives in a helper called with the handler error: decide the equivalence inside
			// the helper on its parameter, and the call's position in processUnaryRpc
			var call *ssa.Call
			k := -1
			for _, ci := range p.callsToFn(pu, h) {
				for ai, a := range ci.Common().Args {
					if p.sameValue(a, errV) || p.lpath(a) == errPath {
						if cl, ok := ci.(*ssa.Call); ok {
							call, k = cl, ai
						}
					}
				}
			}
			if call == nil || k >= len(h.Params) {
				c.check(rule, "processUnaryRpc:status⇒handler-error", false, "the status is built by "+p.fnKey(h)+" but it is not called with the handler's error", p.ipos(al))
				continue
			}
			pp := "p:" + canonParam(h.Params[k])
			fs := p.Facts(al)
			c.check(rule, "processUnaryRpc:status⇒handler-error", fs.NonNil(pp), "a status is built only when the error passed in is non-nil: "+fs.String(), p.ipos(al))
			badH := p.mustPassUnless(h.Blocks[0].Instrs[0], func(i ssa.Instruction) bool { return i == ssa.Instruction(al) }, func(ifi *ssa.If, succ int) bool {
				for _, a := range p.factsOf(h).atomsOf(ifi.Cond, succ == 0, map[*ssa.BasicBlock]AtomSet{}, 0) {
					if a == atom("isnil", pp) {
						return true
					}
				}
				return false
			})
			onlyAlloc := true
			for _, t := range p.Origins().Of(ssa.Value(call)) {
				if t.Op == "const" && t.Name == "nil" {
					continue
				}
				if t.Op != "alloc" || p.Origins().allocs[t.Name] != ssa.Value(al) {
					onlyAlloc = false
				}
			}
			badC := p.mustPassUnless(hcall, func(i ssa.Instruction) bool { return i == ssa.Instruction(call) }, func(ifi *ssa.If, succ int) bool {
				for _, a := range p.factsOf(pu).atomsOf(ifi.Cond, succ == 0, map[*ssa.BasicBlock]AtomSet{}, 0) {
					if a == atom("isnil", errPath) {
						return true
					}
				}
				return false
			})
			c.check(rule, "processUnaryRpc:handler-error⇒status", badH == nil && badC == nil && onlyAlloc, "every path with a non-nil handler error reaches the conversion helper, which returns a status unless its argument is nil", p.ipos(call))
			continue
		}
		fs := p.Facts(al)
		c.check(rule, "processUnaryRpc:status⇒handler-error", fs.NonNil(errPath), "a status is attached only when the handler returned an error: "+fs.String(), p.ipos(al))
		// converse: from the handler's return, every path to the exit either attaches the status or runs
		// through an edge on which the handler error is nil
		bad := p.mustPassUnless(hcall, func(i ssa.Instruction) bool { return i == ssa.Instruction(al) }, func(ifi *ssa.If, succ int) bool {
			for _, a := range p.factsOf(pu).atomsOf(ifi.Cond, succ == 0, map[*ssa.BasicBlock]AtomSet{}, 0) {
				if a == atom("isnil", errPath) {
					return true
				}
			}
			return false
		})
		c.check(rule, "processUnaryRpc:handler-error⇒status", bad == nil, "every path with a non-nil handler error attaches a status", p.ipos(al))
	}
	c.floor(rule, "status attachments in processUnaryRpc", n, 1)
	c.check(rule, "processUnaryRpc:status-stored", len(env.Fields["Status"].Stores) == 1 && env.Fields["Status"].Must, "the reply envelope's Status field is set from that variable", p.ipos(env.At()))
	// stream: in SendTrailer every path on which trErr is non-nil overwrites the OK status before the trailer is
	// written (the converse of C03.3's "error never yields OK")
	st := p.MustFn("server.serverStream.SendTrailer")
	var codeStores []ssa.Instruction
	allInstrs(st, func(i ssa.Instruction) {
		if s, ok := i.(*ssa.Store); ok {
			if fa, ok := s.Addr.(*ssa.FieldAddr); ok && fieldName(fa) == "Code" && typeKey(deref(fa.X.Type())) == "pb.ResponseStatus" {
				if _, isC := constInt(stripConvert(s.Val)); !isC {
					codeStores = append(codeStores, i)
				}
			}
		}
	})
	c.floor(rule, "status code taken from the handler's error in SendTrailer", len(codeStores), 1)
	for _, w := range p.transportOps(st, "Write", false) {
		hit := p.pathAvoiding(st, nil, func(i ssa.Instruction) bool { return i == w }, func(i ssa.Instruction) bool {
			for _, cs := range codeStores {
				if i == cs {
					return true
				}
			}
			return false
		}, p.edgeImplies(st, atom("isnil", "p:trErr")))
		c.check(rule, "SendTrailer:handler-error⇒status", hit == nil, "every path to the trailer write on which the handler's error is non-nil replaces the OK status by the error's status", p.ipos(w))
	}
	// stream: SendTrailer's argument is the handler's / interceptor's result
	rs := p.MustFn("goat.handler.runStream")
	for _, ci := range p.callsTo(rs, "server.serverStream.SendTrailer", false) {
		arg := ci.Common().Args[1]
		o := p.Origins().Of(arg)
		okS, why := o.AllMatch("dyncall(_,field(Handler,_),...)", "dyncall(_,field(streamInterceptor,_),...)", "dyncall(_,fieldzero(goat.Server.streamInterceptor),...)", "dyncall(...)", "zero(error)")
		nd := 0
		for _, t := range o {
			if t.Op == "dyncall" {
				nd++
			}
		}
		c.check(rule, "runStream:trailer-arg", okS && nd >= 2, "SendTrailer's argument originates from the handler and interceptor results: "+why, p.ipos(ci.(ssa.Instruction)))
	}
}

func ruleErrorToStatusSiblings(c *Ctx, rule string) {
	p := c.p
	pu := p.MustFn("goat.handler.processUnaryRpc")
	st := p.MustFn("server.serverStream.SendTrailer")
	nfe := len(p.callsTo(pu, "grpc/status.FromError", false))
	seenH := map[*ssa.Function]bool{pu: true}
	for _, t := range p.envelopeIn("goat.handler.processUnaryRpc").Fields["Status"].Origins {
		if al, ok := p.Origins().allocs[t.Name].(*ssa.Alloc); ok && t.Op == "alloc" && !seenH[al.Parent()] {
			seenH[al.Parent()] = true
			nfe += len(p.callsTo(al.Parent(), "grpc/status.FromError", false))
		}
	}
	c.check(rule, "processUnaryRpc:FromError", nfe == 1, "unary error→status goes through status.FromError", p.pos(pu.Pos()))
	c.check(rule, "SendTrailer:FromError", len(p.callsTo(st, "grpc/status.FromError", false)) == 1, "stream error→status goes through status.FromError", p.pos(st.Pos()))
	// FromError's argument is the error being converted
	for _, ci := range p.callsTo(st, "grpc/status.FromError", false) {
		c.check(rule, "SendTrailer:FromError-arg", p.sameValue(ci.Common().Args[0], paramNamed(st, "trErr")), "the error converted is the one passed in", p.ipos(ci.(ssa.Instruction)))
	}
	// a non-nil error never yields code OK: SendTrailer rewrites OK→Internal under fact trErr != nil
	rew := false
	allInstrs(st, func(i ssa.Instruction) {
		if s, ok := i.(*ssa.Store); ok {
			if fa, ok := s.Addr.(*ssa.FieldAddr); ok && fieldName(fa) == "Code" {
				if v, isC := constInt(stripConvert(s.Val)); isC && v == 13 {
					fs := p.Facts(i)
					if fs.NonNil("p:trErr") {
						rew = true
					}
				}
			}
		}
	})
	c.check(rule, "SendTrailer:OK→Internal", rew, "a non-nil error whose status code is OK is rewritten to Internal (13) under fact trErr != nil", p.pos(st.Pos()))
}

func stripConvert(v ssa.Value) ssa.Value {
	for {
		switch x := v.(type) {
		case *ssa.Convert:
			v = x.X
		case *ssa.ChangeType:
			v = x.X
		default:
			return v
		}
	}
}

// provablyNonNilErr: every origin of the error value is non-nil by construction or by a fact.
func (p *Prog) provablyNonNilErr(v ssa.Value, at ssa.Instruction) (bool, string) {
	fs := p.Facts(at)
	if fs.NonNil(p.lpath(v)) {
		return true, "fact nonnil(" + p.lpath(v) + ")"
	}
	o := p.Origins().Of(v)
	for _, t := range o.List() {
		switch {
		case t.Op == "call" && (strings.HasPrefix(t.Name, "fmt.Errorf") || strings.HasPrefix(t.Name, "errors.New") || strings.HasSuffix(t.Name, "status.Error") || strings.HasSuffix(t.Name, "status.Errorf") || strings.Contains(t.Name, "pkg/errors.Wrap")):
		case t.Op == "call" && strings.HasSuffix(t.Name, "Context).Err"):
			// ctx.Err() after Done fired: non-nil by the context contract
		case t.Op == "call" && strings.HasSuffix(t.Name, "Status).Err"):
			// status.Err() is nil iff code OK: needs a fact excluding OK
			ok := false
			for k := range fs {
				if (strings.HasPrefix(k, "neq(") || strings.HasPrefix(k, "cmp")) && strings.Contains(k, ".Code") {
					ok = true
				}
			}
			if !ok {
				return false, "error is status.FromProto(x).Err(), which is nil when x.Code is OK, and no fact excludes code OK here (" + fs.String() + ")"
			}
		case t.Op == "global":
			// sentinel error variables (io.EOF, package-level errors.New)
		default:
			return false, "error origin " + t.String() + " is not provably non-nil"
		}
	}
	return len(o) > 0, o.String()
}

func ruleValueOrError(c *Ctx, rule string) {
	p := c.p
	f := p.MustFn("client.RpcMultiplexer.CallUnaryMethod")
	n := 0
	for _, r := range returnsOf(f) {
		if r.Block() == f.Recover || len(r.Results) != 2 {
			continue
		}
		n++
		body, err := retVals(r)[0], retVals(r)[1]
		construct := "CallUnaryMethod:return"
		fs := p.Facts(r)
		bodyNonNil := fs.NonNil(p.lpath(body))
		errNil := isNilConst(err)
		// functions with defers spill results: look through the cells
		if ld, ok := err.(*ssa.UnOp); ok {
			_ = ld
		}
		switch {
		case errNil && bodyNonNil:
			c.check(rule, construct+":(body,nil)", true, "success return under fact nonnil(body)", p.ipos(r))
		case errNil:
			c.check(rule, construct+":(?,nil)", false, "returns a nil error with a body that is not proven non-nil; ClientConn.invoke dereferences it", p.ipos(r))
		default:
			ok, why := p.provablyNonNilErr(err, r)
			c.check(rule, construct+":(_,err):"+errKind(p, err), ok, why, p.ipos(r))
		}
	}
	c.floor(rule, "returns of CallUnaryMethod", n, 5)
	// the contradiction partner: invoke dereferences the body on err == nil
	inv := p.MustFn("goat.ClientConn.invoke")
	cum := p.oneCall(inv, "client.RpcMultiplexer.CallUnaryMethod", false)
	c.trivial(rule, "invoke:uses-body-unconditionally", extractOf(cum.(*ssa.Call), 0) != nil, "invoke reads replyBody.Data whenever err == nil")
}

func errKind(p *Prog, v ssa.Value) string {
	o := p.Origins().Of(v)
	var ks []string
	for _, t := range o.List() {
		n := t.Name
		if i := strings.LastIndex(n, "/"); i >= 0 {
			n = n[i+1:]
		}
		if t.Op == "call" || t.Op == "global" {
			ks = append(ks, n)
		} else {
			ks = append(ks, t.Op)
		}
	}
	return strings.Join(ks, "|")
}

func ruleResetNeverSuccess(c *Ctx, rule string) {
	p := c.p
	eid := p.MustFn("client.errorIfDone")
	n := 0
	for _, r := range eofReturns(p, eid, 1) {
		n++
		fs := p.Facts(r)
		c.check(rule, "errorIfDone:EOF-without-reset", fs.IsNil("p:rpc.Reset_"), "io.EOF (success) is returned under "+fs.String()+" — a reset envelope (Reset_ set, trailer present, no status) takes this path and is reported as a clean end of stream", p.ipos(r))
	}
	c.floor(rule, "success returns of errorIfDone", n, 1)
}

// ruleStreamPayloadProvenance (C02.3, sender side): the body a stream SendMsg puts on the wire is an owned copy
// (Materialize) of Marshal(m) for the caller's message m — not an alias of a codec buffer that is recycled
// while the envelope still waits in a writer queue, and with no altering step.
func ruleStreamPayloadProvenance(c *Ctx, rule string) {
	p := c.p
	e := p.Origins()
	for _, fk := range []string{"client.clientStream.SendMsg", "server.serverStream.SendMsg"} {
		f := p.MustFn(fk)
		env := p.envelopeIn(fk)
		n := 0
		for _, t := range env.Fields["Body"].Origins {
			al, ok := e.allocs[t.Name].(*ssa.Alloc)
			if !ok || t.Op != "alloc" {
				c.check(rule, fk+":body-literal", false, "Body is not a local literal: "+t.String(), p.ipos(env.At()))
				continue
			}
			for _, s := range p.allocFieldStores(al, "Data") {
				n++
				d := e.Of(s.Val)
				ok1, why := d.AllMatch("call(*Materialize,call(*Marshal#0,_,_))")
				okM := false
				if cl, isC := s.Val.(*ssa.Call); isC && ok1 {
					if ex, isE := cl.Call.Args[0].(*ssa.Extract); isE {
						if mc, isMC := ex.Tuple.(*ssa.Call); isMC {
							okM = p.sameValue(mc.Call.Args[len(mc.Call.Args)-1], paramNamed(f, "m"))
						}
					}
				}
				c.check(rule, fk+":body-data", ok1 && okM, "Body.Data ← "+why+" (required: Materialize(Marshal(m)) of the caller's message — an owned copy)", p.ipos(s))
			}
		}
		c.floor(rule, "body data stores in "+fk, n, 1)
		for _, ci := range p.callsTo(f, "BufferSlice).Free", true) {
			c.check(rule, fk+":no-buffer-release", false, "the marshalled buffers are released while the envelope may still be queued for the writer", p.ipos(ci.(ssa.Instruction)))
		}
		for _, ci := range p.callsTo(f, "mem.Buffer).Free", true) {
			c.check(rule, fk+":no-buffer-release", false, "a marshal buffer is released while the envelope may still be queued for the writer", p.ipos(ci.(ssa.Instruction)))
		}
		// the envelope written is the one built
		ws := p.transportOps(f, "Write", false)
		okW := len(ws) == 1 && p.sameValue(ws[0].Call.Args[1], env.Root())
		c.check(rule, fk+":writes-the-envelope-built", okW, "the envelope handed to the transport is the one carrying that body", p.ipos(env.At()))
	}
}

// ruleCodecErrorsHonoured: a message that could not be decoded (or encoded) is never passed off as delivered: from
// every codec Unmarshal / Marshal call, no successful return (a literal nil error) and no transport write is
// reachable without passing an edge on which the codec's error is known to be nil.
func ruleCodecErrorsHonoured(c *Ctx, rule string) {
	p := c.p
	n := 0
	for _, f := range p.Funcs {
		allInstrs(f, func(i ssa.Instruction) {
			call, ok := i.(*ssa.Call)
			if !ok || !call.Call.IsInvoke() {
				return
			}
			m := call.Call.Method
			isCodec := m.Pkg() != nil && strings.HasSuffix(m.Pkg().Path(), "grpc/encoding") && (m.Name() == "Unmarshal" || m.Name() == "Marshal")
			// … and a message whose transport write failed is not reported as sent
			isWrite := false
			for _, w := range p.transportOps(f, "Write", false) {
				if w == call {
					isWrite = true
				}
			}
			if !isCodec && !isWrite {
				return
			}
			if isCodec {
				n++
			}
			var errV ssa.Value = call
			if m.Name() == "Marshal" {
				ex := extractOf(call, 1)
				if ex == nil {
					c.check(rule, p.cname(f)+":codec."+m.Name()+":error-used", false, "the codec's error result is discarded", p.ipos(i))
					return
				}
				errV = ex
			}
			errPath := p.lpath(errV)
			isOnward := func(j ssa.Instruction) bool {
				switch x := j.(type) {
				case *ssa.Return:
					vs := retVals(x)
					return len(vs) > 0 && isNilConst(vs[len(vs)-1]) && types.Identical(vs[len(vs)-1].Type(), types.Universe.Lookup("error").Type())
				case *ssa.Call:
					if x == call {
						return false
					}
					for _, w := range p.transportOps(f, "Write", false) {
						if w == x {
							return true
						}
					}
				}
				return false
			}
			// the error may be kept in a variable that closures share (a cell): the test then reads the cell
			prune := p.edgeImplies(f, atom("isnil", errPath))
			if refs := errV.Referrers(); refs != nil {
				for _, r := range *refs {
					if st, ok := r.(*ssa.Store); ok && st.Val == errV {
						viaCell := p.edgeImplies(f, atom("isnil", p.locPath(st.Addr)))
						direct := prune
						prune = func(ifi *ssa.If, succ int) bool { return direct(ifi, succ) || viaCell(ifi, succ) }
					}
				}
			}
			hit := p.pathAvoiding(f, call, isOnward, func(ssa.Instruction) bool { return false }, prune)
			where := ""
			if hit != nil {
				where = p.ipos(hit)
			}
			kind := "codec."
			if isWrite {
				kind = "transport."
			}
			c.check(rule, p.cname(f)+":"+kind+m.Name()+":failure-not-success", hit == nil, "no successful return and no further transport write is reachable from this call without passing `err == nil` (reached: "+where+")", p.ipos(i))
		})
	}
	c.floor(rule, "codec Marshal / Unmarshal calls", n, 6)
}
