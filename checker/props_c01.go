package main

import (
	"fmt"
	"go/token"
	"go/types"

	"golang.org/x/tools/go/ssa"
)

// ---- roles discovered structurally (never by closure ordinal or line) ----

func (p *Prog) serveWriter() *ssa.Function {
	return p.goClosure(p.MustFn("goat.handler.serve"), "writer goroutine (go closure receiving from writeChan)", func(f *ssa.Function) bool { return p.recvsFromField(f, "writeChan") })
}
func (p *Prog) serveWorker() *ssa.Function {
	return p.goClosure(p.MustFn("goat.handler.serve"), "unary worker (go closure receiving from unaryRpcChan)", func(f *ssa.Function) bool { return p.recvsFromField(f, "unaryRpcChan") })
}

// serverReadLoopFn: the function that runs a server connection's read loop: the one containing the transport Read
// on the connection's transport h.rw (serve itself, or a method it was extracted into).
func (p *Prog) serverReadLoopFn() *ssa.Function {
	var hits []*ssa.Function
	for _, f := range p.Funcs {
		for _, rd := range p.transportOps(f, "Read", false) {
			if p.locPathOfLoad(rd.Call.Value) == "goat.handler.rw" {
				hits = append(hits, f)
			}
		}
	}
	if len(hits) != 1 {
		panic(UnresolvedError{fmt.Sprintf("the function reading from the server connection transport h.rw (found %d)", len(hits))})
	}
	return hits[0]
}

// goClosure: the closure started by a `go` statement in f that satisfies pred.
func (p *Prog) goClosure(f *ssa.Function, what string, pred func(*ssa.Function) bool) *ssa.Function {
	var hits []*ssa.Function
	for _, g := range p.goStmts(f) {
		for _, t := range p.calleesOfValue(g.Call.Value, p.Origins()) {
			if pred(t) {
				hits = append(hits, t)
			}
		}
	}
	if len(hits) != 1 {
		panic(UnresolvedError{fmt.Sprintf("%s in %s (found %d)", what, p.fnKey(f), len(hits))})
	}
	return hits[0]
}

func (p *Prog) goSiteOf(target *ssa.Function) *ssa.Go {
	for _, gs := range p.GoSites() {
		for _, t := range gs.Targets {
			if t == target {
				return gs.Instr
			}
		}
	}
	return nil
}

// rwClosures: the reader and writer closures handed to NewFnReadWriter inside f.
func (p *Prog) rwClosures(f *ssa.Function) (r, w *ssa.Function) {
	for _, ci := range p.callsTo(f, "int.NewFnReadWriter", false) {
		args := ci.Common().Args
		if len(args) == 2 {
			rs := p.calleesOfValue(args[0], p.Origins())
			ws := p.calleesOfValue(args[1], p.Origins())
			if len(rs) == 1 && len(ws) == 1 {
				return p.unwrapThin(rs[0]), p.unwrapThin(ws[0])
			}
		}
	}
	panic(UnresolvedError{"reader/writer closures given to NewFnReadWriter in " + p.fnKey(f)})
}

func (p *Prog) envelopeIn(fkey string) *Envelope {
	var hits []*Envelope
	for _, e := range p.Envelopes() {
		if p.fnKey(e.Fn) == fkey || p.fnKey(rootFn(e.Fn)) == fkey && p.fnKey(e.Fn) != fkey && false {
			hits = append(hits, e)
		}
	}
	if len(hits) != 1 {
		panic(UnresolvedError{fmt.Sprintf("exactly one constructed envelope in %s (found %d)", fkey, len(hits))})
	}
	return hits[0]
}

// paramPos: position (receiver first) of the parameters the rules refer to, so that renaming a parameter
// does not unbind a rule. Keyed by function name + the name the parameter has on the pinned tree.
var paramPos = map[string]int{
	"invoke:args": 3, "invoke:reply": 4,
	"CallUnaryMethod:header": 2, "CallUnaryMethod:body": 3,
	"RecvMsg:m": 1, "SendMsg:m": 1, "SendTrailer:trErr": 1,
	"headersFromContext:ctx": 0,
	"registerHandler:id": 1, "registerHandler:c": 2,
	"runStream:streamId": 4,
	"toStatusError:err": 0, "closeError:err": 1,
	"forwardRpc:rpc": 2, "forwardRpc:source": 1,
	"addOutgoingConnectionLocked:id": 1, "newConnLocked:id": 1,
	"Write:ctx": 1, "Write:rpc": 2, "Write:pkt": 2,
	"StatsEndRPC:appErr": 3,
	"getChainUnaryHandler:interceptors": 0, "getChainUnaryHandler:curr": 1, "getChainUnaryHandler:finalHandler": 3,
	"getChainStreamHandler:interceptors": 0, "getChainStreamHandler:curr": 1, "getChainStreamHandler:finalHandler": 3,
}

func paramNamed(f *ssa.Function, name string) *ssa.Parameter {
	if i, ok := paramPos[f.Name()+":"+name]; ok && i < len(f.Params) {
		return f.Params[i]
	}
	for _, pr := range f.Params {
		if pr.Name() == name {
			return pr
		}
	}
	panic(UnresolvedError{"parameter " + name + " of " + f.Name()})
}

func paramOfType(f *ssa.Function, tkey string) *ssa.Parameter {
	var hit *ssa.Parameter
	n := 0
	for _, pr := range f.Params {
		if typeKey(pr.Type()) == tkey {
			if _, isPtr := pr.Type().Underlying().(*types.Pointer); isPtr || true {
				hit = pr
				n++
			}
		}
	}
	if n != 1 {
		panic(UnresolvedError{fmt.Sprintf("exactly one parameter of type %s in %s (found %d)", tkey, f.Name(), n)})
	}
	return hit
}

// idTerms of a function's envelope parameter: { field(Id, t) | t ∈ origins(param) }
func (p *Prog) fieldOfParam(f *ssa.Function, tkey, field string) TermSet {
	pr := paramOfType(f, tkey)
	out := TermSet{}
	for _, t := range p.Origins().Of(pr) {
		out.add(T("field", field, t))
	}
	return out
}

func sameTermSet(a, b TermSet) bool {
	if len(a) != len(b) {
		return false
	}
	for k := range a {
		if _, ok := b[k]; !ok {
			return false
		}
	}
	return true
}

func subsetTermSet(a, b TermSet) bool {
	for k := range a {
		if _, ok := b[k]; !ok {
			return false
		}
	}
	return len(a) > 0
}

// ---- C01 ----

func ruleAtomicIds(c *Ctx, rule string) {
	p := c.p
	n := 0
	for _, f := range p.Funcs {
		allInstrs(f, func(i ssa.Instruction) {
			fa, ok := i.(*ssa.FieldAddr)
			if !ok {
				return
			}
			fk, _ := ownerKey(fa)
			if fk.String() != "client.RpcMultiplexer.streamCounter" {
				return
			}
			n++
			construct := p.fnKey(f) + ":streamCounter"
			ok2 := true
			why := "only use is sync/atomic.AddUint64(&streamCounter, 1)"
			refs := fa.Referrers()
			if refs == nil || len(*refs) == 0 {
				ok2, why = false, "address taken but unused"
			}
			for _, r := range *refs {
				call, isCall := r.(*ssa.Call)
				if !isCall || calleeName(&call.Call) != "sync/atomic.AddUint64" || call.Call.Args[0] != fa {
					ok2, why = false, "stream id counter accessed other than through sync/atomic.AddUint64: two concurrent callers can obtain the same id"
					continue
				}
				if d, isC := constInt(call.Call.Args[1]); !isC || d != 1 {
					ok2, why = false, "id increment is not the constant 1"
				}
			}
			if p.isInitPhase(fa) {
				ok2, why = true, "init-phase store in the constructor"
			}
			c.check(rule, construct, ok2, why, p.ipos(i))
		})
	}
	c.floor(rule, "accesses to streamCounter", n, 2)
}

// idValue: the atomic-add result used as this call's id in f.
func (p *Prog) idValue(f *ssa.Function) *ssa.Call {
	cs := p.callsTo(f, "sync/atomic.AddUint64", false)
	if len(cs) != 1 {
		panic(UnresolvedError{"the id allocation (atomic.AddUint64) in " + p.fnKey(f)})
	}
	return cs[0].(*ssa.Call)
}

func ruleOneIdPerCall(c *Ctx, rule string) {
	p := c.p
	f := p.MustFn("client.RpcMultiplexer.CallUnaryMethod")
	id := p.idValue(f)
	reg := p.oneCall(f, "client.RpcMultiplexer.registerHandler", false)
	c.check(rule, "CallUnaryMethod:register-id", p.sameValue(reg.Common().Args[1], id), "value registered is the atomic-add result", p.ipos(reg))
	dfr, unreg := p.deferredCallTo(f, "client.RpcMultiplexer.unregisterHandler")
	if dfr == nil {
		c.check(rule, "CallUnaryMethod:unregister-id", false, "no deferred unregisterHandler", p.pos(f.Pos()))
	} else {
		c.check(rule, "CallUnaryMethod:unregister-id", p.sameValue(unreg.Common().Args[1], id), "value unregistered by the deferred call is the atomic-add result", p.ipos(dfr))
	}
	env := p.envelopeIn("client.RpcMultiplexer.CallUnaryMethod")
	st := env.Fields["Id"].Stores
	c.check(rule, "CallUnaryMethod:envelope-id", len(st) == 1 && p.sameValue(st[0].Val, id), "Id stored in the request envelope is the atomic-add result", p.ipos(env.At()))
	// the channel registered is the one waited on
	mk := p.callsTo(f, "", false)
	_ = mk
	var waited ssa.Value
	for _, u := range p.chanUsesIn(f) {
		if u.kind == "recv" {
			if _, isDone := u.ch.(*ssa.Call); !isDone {
				waited = u.ch
			}
		}
	}
	c.check(rule, "CallUnaryMethod:registered-channel", waited != nil && p.sameValue(reg.Common().Args[2], waited), "the channel registered under the id is the channel the caller waits on", p.ipos(reg))

	// stream side: id returned, id registered and id captured by teardown are the same value
	g := p.MustFn("client.RpcMultiplexer.NewStreamReadWriter")
	gid := p.idValue(g)
	greg := p.oneCall(g, "client.RpcMultiplexer.registerHandler", false)
	c.check(rule, "NewStreamReadWriter:register-id", p.sameValue(greg.Common().Args[1], gid), "value registered is the atomic-add result", p.ipos(greg))
	okRet := false
	for _, r := range returnsOf(g) {
		if len(r.Results) == 4 && p.sameValue(retVals(r)[0], gid) {
			okRet = true
		}
	}
	c.check(rule, "NewStreamReadWriter:returned-id", okRet, "id returned to the caller is the atomic-add result", p.pos(g.Pos()))
	okTd := false
	for _, a := range p.Anons(g) {
		for _, ci := range p.callsTo(a, "client.RpcMultiplexer.unregisterHandler", false) {
			if p.sameValue(ci.Common().Args[1], gid) {
				okTd = true
			}
		}
	}
	c.check(rule, "NewStreamReadWriter:teardown-id", okTd, "teardown closure unregisters the same id", p.pos(g.Pos()))
	// the reader closure waits on the registered channel
	rd, _ := p.rwClosures(g)
	okCh := false
	for _, u := range p.chanUsesIn(rd) {
		if u.kind != "recv" {
			continue
		}
		if p.sameValue(u.ch, greg.Common().Args[2]) {
			okCh = true
		} else if a, b := p.chanClass(u.ch), p.chanClass(greg.Common().Args[2]); len(a) == 1 && len(b) == 1 && classesIntersect(a, b) {
			// the reader's code lives in a function that takes the channel as an argument: both denote the one
			// channel made in this invocation
			okCh = true
		}
	}
	c.check(rule, "NewStreamReadWriter:registered-channel", okCh, "the stream's reader closure receives from the channel registered under the id", p.pos(rd.Pos()))
}

func ruleRegisterBeforeWrite(c *Ctx, rule string) {
	p := c.p
	f := p.MustFn("client.RpcMultiplexer.CallUnaryMethod")
	reg := p.oneCall(f, "client.RpcMultiplexer.registerHandler", false)
	ws := p.transportOps(f, "Write", false)
	if len(ws) == 0 {
		panic(UnresolvedError{"request Write in CallUnaryMethod"})
	}
	for _, w := range ws {
		c.check(rule, "CallUnaryMethod:register-dominates-write", instrDominates(reg, w), "registration precedes the request write on every path (a fast reply would otherwise be dropped as unhandled)", p.ipos(reg), p.ipos(w))
	}
	g := p.MustFn("client.RpcMultiplexer.NewStreamReadWriter")
	greg := p.oneCall(g, "client.RpcMultiplexer.registerHandler", false)
	okAll := true
	for _, r := range returnsOf(g) {
		if len(r.Results) == 4 && isNilConst(retVals(r)[3]) && !instrDominates(greg, r) {
			okAll = false
		}
	}
	c.check(rule, "NewStreamReadWriter:register-dominates-success", okAll, "every successful return is preceded by the registration", p.ipos(greg))
	h := p.MustFn("goat.ClientConn.newStream")
	nsrw := p.oneCall(h, "client.RpcMultiplexer.NewStreamReadWriter", false)
	for _, w := range p.transportOps(h, "Write", false) {
		c.check(rule, "newStream:open-after-registration", instrDominates(nsrw, w), "the open envelope is written after the stream has been registered", p.ipos(w))
	}
}

func ruleReplyEchoesId(c *Ctx, rule string) {
	p := c.p
	for _, fk := range []string{"goat.handler.processUnaryRpc", "goat.handler.resetStream"} {
		f := p.MustFn(fk)
		env := p.envelopeIn(fk)
		want := p.fieldOfParam(f, "pb.Rpc", "Id")
		got := env.Fields["Id"].Origins
		c.check(rule, fk+":Id", sameTermSet(got, want) && env.Fields["Id"].Must,
			fmt.Sprintf("Id of the emitted envelope has origins %s; required: exactly the Id of the inbound envelope %s", got, want), p.ipos(env.At()))
	}
}

func ruleDispatchById(c *Ctx, rule string) {
	p := c.p
	f := p.MustFn("client.RpcMultiplexer.handleResponse")
	n := 0
	for _, u := range p.chanUsesIn(f) {
		if u.kind != "send" {
			continue
		}
		n++
		var sndChan, sndX ssa.Value
		switch x := u.instr.(type) {
		case *ssa.Send:
			sndChan, sndX = x.Chan, x.X
		case *ssa.Select: // the send is one arm of a select
			for _, st := range x.States {
				if st.Chan == u.ch && st.Send != nil {
					sndChan, sndX = st.Chan, st.Send
				}
			}
		}
		ok, why := false, "channel operand is not a lookup in the handlers registry"
		if ex, isEx := sndChan.(*ssa.Extract); isEx && sndX != nil {
			if lk, isLk := ex.Tuple.(*ssa.Lookup); isLk {
				if fk, isF := mapField(lk.X); isF && fk.String() == "client.RpcMultiplexer.handlers" {
					kp, vp := p.lpath(lk.Index), p.lpath(sndX)+".Id"
					ok = kp == vp
					why = fmt.Sprintf("lookup key %s; Id of the value sent %s", kp, vp)
				}
			}
		}
		c.check(rule, "handleResponse:send", ok, why, p.ipos(u.instr))
	}
	c.floor(rule, "dispatch sends in handleResponse", n, 1)
	g := p.MustFn("goat.handler.processStreamingRpc")
	m := 0
	for _, u := range p.chanUsesIn(g) {
		if u.kind != "send" {
			continue
		}
		m++
		var sent ssa.Value
		if sel, isSel := u.instr.(*ssa.Select); isSel {
			for _, st := range sel.States {
				if st.Chan == u.ch {
					sent = st.Send
				}
			}
		} else if snd, isS := u.instr.(*ssa.Send); isS {
			sent = snd.X
		}
		ok, why := false, "channel operand is not an element of the streams registry"
		var lk *ssa.Lookup
		switch x := u.ch.(type) {
		case *ssa.Field:
			if ex, isEx := x.X.(*ssa.Extract); isEx {
				lk, _ = ex.Tuple.(*ssa.Lookup)
			}
		case *ssa.UnOp: // handler is a local cell: handler.ch
			if fa, isFa := x.X.(*ssa.FieldAddr); isFa {
				if cell, isC := fa.X.(*ssa.Alloc); isC {
					for _, s := range p.cellStores(cell) {
						if ex, isEx := s.Val.(*ssa.Extract); isEx {
							lk, _ = ex.Tuple.(*ssa.Lookup)
						}
					}
				}
			}
		}
		if lk != nil && sent != nil {
			if fk, isF := mapField(lk.X); isF && fk.String() == "goat.handler.streams" {
				kp, vp := p.lpath(lk.Index), p.lpath(sent)+".Id"
				ok = kp == vp
				why = fmt.Sprintf("lookup key %s; Id of the envelope forwarded %s", kp, vp)
			}
		}
		c.check(rule, "processStreamingRpc:forward", ok, why, p.ipos(u.instr))
	}
	c.floor(rule, "forwarding sends in processStreamingRpc", m, 1)
}

// noSecondBefore: starting after `from`, no instruction satisfying isSite is reachable without first passing `barrier`.
func noSecondBefore(from ssa.Instruction, isSite func(ssa.Instruction) bool, barrier func(ssa.Instruction) bool) ssa.Instruction {
	seen := map[*ssa.BasicBlock]bool{}
	var bad ssa.Instruction
	var walk func(b *ssa.BasicBlock, idx int)
	walk = func(b *ssa.BasicBlock, idx int) {
		for k := idx; k < len(b.Instrs) && bad == nil; k++ {
			i := b.Instrs[k]
			if barrier(i) {
				return
			}
			if isSite(i) {
				bad = i
				return
			}
		}
		for _, s := range b.Succs {
			if !seen[s] && bad == nil {
				seen[s] = true
				walk(s, 0)
			}
		}
	}
	walk(from.Block(), instrIndex(from)+1)
	return bad
}

func ruleHandlerExactlyOnce(c *Ctx, rule string) {
	p := c.p
	serve := p.serverReadLoopFn()
	reads := p.transportOps(serve, "Read", false)
	if len(reads) != 1 {
		panic(UnresolvedError{"the single transport Read in serve"})
	}
	isRead := func(i ssa.Instruction) bool { return i == ssa.Instruction(reads[0]) }
	isDispatch := func(i ssa.Instruction) bool {
		if sel, ok := i.(*ssa.Select); ok {
			for _, st := range sel.States {
				if st.Dir == types.SendOnly && p.chanDesc(st.Chan) == "unaryRpcChan" {
					return true
				}
			}
		}
		if s, ok := i.(*ssa.Send); ok && p.chanDesc(s.Chan) == "unaryRpcChan" {
			return true
		}
		if cl, ok := i.(*ssa.Call); ok {
			if sc := cl.Call.StaticCallee(); sc != nil && p.fnKey(sc) == "goat.handler.processStreamingRpc" {
				return true
			}
		}
		return false
	}
	nd := 0
	allInstrs(serve, func(i ssa.Instruction) {
		if !isDispatch(i) {
			return
		}
		nd++
		bad := noSecondBefore(i, isDispatch, isRead)
		c.check(rule, "serve:dispatch-once:"+dispatchName(p, i), bad == nil && instrDominates(reads[0], i),
			"each envelope read reaches at most one dispatch site before the next Read", p.ipos(i))
	})
	c.floor(rule, "dispatch sites in serve", nd, 2)
	// (b) worker: one processUnaryRpc per received request, one hand-off of its result
	w := p.serveWorker()
	calls := p.callsTo(w, "goat.handler.processUnaryRpc", false)
	okb := len(calls) == 1
	why := fmt.Sprintf("%d calls of processUnaryRpc in the worker", len(calls))
	if okb {
		isCall := func(i ssa.Instruction) bool { return i == calls[0].(ssa.Instruction) }
		isRecv := func(i ssa.Instruction) bool {
			if sel, ok := i.(*ssa.Select); ok {
				for _, st := range sel.States {
					if st.Dir == types.RecvOnly && p.chanDesc(st.Chan) == "unaryRpcChan" {
						return true
					}
				}
			}
			return false
		}
		if bad := noSecondBefore(calls[0].(ssa.Instruction), isCall, isRecv); bad != nil {
			okb, why = false, "processUnaryRpc can run twice for one received request"
		}
		// its result is what is handed to the writer queue, once
		nsend := 0
		for _, u := range p.chanUsesIn(w) {
			if u.kind == "send" && p.chanDesc(u.ch) == "writeChan" {
				nsend++
				var sent ssa.Value
				switch x := u.instr.(type) {
				case *ssa.Send:
					sent = x.X
				case *ssa.Select:
					for _, st := range x.States {
						if st.Dir == types.SendOnly {
							sent = st.Send
						}
					}
				}
				if sent == nil || !p.sameValue(sent, calls[0].(*ssa.Call)) {
					okb, why = false, "value handed to the writer queue is not the result of processUnaryRpc"
				}
				if !instrDominates(calls[0].(ssa.Instruction), u.instr) {
					okb, why = false, "hand-off does not follow the call"
				}
			}
		}
		if nsend != 1 {
			okb, why = false, fmt.Sprintf("%d hand-off sites to writeChan in the worker", nsend)
		}
		// argument is the received request
	}
	c.check(rule, "worker:one-call-one-reply", okb, why, p.pos(w.Pos()))
	// (c) the generated handler is invoked exactly once on every non-panicking path
	pu := p.MustFn("goat.handler.processUnaryRpc")
	var hcalls []ssa.Instruction
	for _, op := range p.Blocks().ops[pu] {
		if op.Kind == "callback:grpc.MethodDesc.Handler" {
			hcalls = append(hcalls, op.Instr)
		}
	}
	okc := len(hcalls) == 1
	whyc := fmt.Sprintf("%d handler invocation sites", len(hcalls))
	if okc {
		h := hcalls[0]
		if inLoop(h.Block()) {
			okc, whyc = false, "handler invocation is inside a loop"
		}
		entry := pu.Blocks[0].Instrs[0]
		// the only way round the handler is a request whose metadata could not be decoded (malformed request:
		// the property demands that no handler runs for it)
		mdErr := ""
		for _, ci := range p.callsTo(pu, "goat.contextFromHeaders", false) {
			if ex := extractOf(ci.(*ssa.Call), 2); ex != nil {
				mdErr = p.lpath(ex)
			}
		}
		bad := p.mustPassUnless(entry, func(i ssa.Instruction) bool { return i == h }, func(ifi *ssa.If, succ int) bool {
			for _, a := range p.factsOf(pu).atomsOf(ifi.Cond, succ == 0, map[*ssa.BasicBlock]AtomSet{}, 0) {
				if mdErr != "" && a == atom("nonnil", mdErr) && p.reachesWithout(ifi.Block().Succs[succ], h.Block()) {
					return true
				}
			}
			return false
		})
		if bad != nil && entry != h {
			okc, whyc = false, "a path from entry to "+p.ipos(bad)+" returns a reply without invoking the handler (other than for undecodable request metadata)"
		}
	}
	c.check(rule, "processUnaryRpc:handler-once", okc, whyc, p.pos(pu.Pos()))
}

func dispatchName(p *Prog, i ssa.Instruction) string {
	if _, ok := i.(*ssa.Call); ok {
		return "processStreamingRpc"
	}
	return "unaryRpcChan"
}

func rulePayloadProvenance(c *Ctx, rule string) {
	p := c.p
	e := p.Origins()
	inv := p.MustFn("goat.ClientConn.invoke")
	// request: Body.Data of the request = Materialize(Marshal(args))
	cum := p.oneCall(inv, "client.RpcMultiplexer.CallUnaryMethod", false)
	bodyArg := e.Of(cum.Common().Args[3])
	argsOrig := e.Of(paramNamed(inv, "args"))
	okReq := false
	whyReq := "request body is not a local Body{Data: Materialize(Marshal(args))}"
	for _, t := range bodyArg {
		if t.Op == "alloc" {
			if al, ok := e.allocs[t.Name].(*ssa.Alloc); ok {
				for _, s := range p.allocFieldStores(al, "Data") {
					d := e.Of(s.Val)
					okm, _ := d.AllMatch("call(*Materialize,call(*Marshal#0,_,$A))")
					if okm {
						// A must be the API's args
						okA := true
						for _, dt := range d {
							env := map[string]string{}
							Match(dt, "call(*Materialize,call(*Marshal#0,_,$A))", env)
							found := false
							for _, at := range argsOrig {
								if fullString(at) == env["A"] {
									found = true
								}
							}
							if len(argsOrig) > 1 && env["A"] == fullString(argsOrig.one()) {
								found = true
							}
							if !found {
								okA = false
								whyReq = "marshalled value " + env["A"] + " is not the caller's request message " + argsOrig.String()
							}
						}
						if okA {
							okReq = true
							whyReq = "Body.Data ← " + d.String()
						}
					} else {
						whyReq = "Body.Data origins " + d.String() + " are not Materialize(Marshal(args)) (a slice/append/copy on the way alters the payload)"
					}
				}
			}
		}
	}
	c.check(rule, "invoke:request-body", okReq, whyReq, p.ipos(cum))
	cm := p.MustFn("client.RpcMultiplexer.CallUnaryMethod")
	env := p.envelopeIn("client.RpcMultiplexer.CallUnaryMethod")
	bs := env.Fields["Body"].Stores
	c.check(rule, "CallUnaryMethod:body-param", len(bs) == 1 && p.sameValue(bs[0].Val, paramNamed(cm, "body")) && env.Fields["Body"].Must, "the request envelope carries the body handed in by invoke, unmodified", p.ipos(env.At()))
	hs := env.Fields["Header"].Stores
	c.check(rule, "CallUnaryMethod:header-param", len(hs) == 1 && p.sameValue(hs[0].Val, paramNamed(cm, "header")) && env.Fields["Header"].Must, "the request envelope carries the header handed in by invoke", p.ipos(env.At()))

	// server decode: Unmarshal(NewBuffer(&body.Data), msg) with body = inbound rpc.Body, msg = the closure's parameter
	pu := p.MustFn("goat.handler.processUnaryRpc")
	dec := p.closureWith(pu, "decode closure (calls codec Unmarshal)", func(f *ssa.Function) bool { return len(p.callsTo(f, "CodecV2).Unmarshal", false)) > 0 })
	for _, um := range p.callsTo(dec, "CodecV2).Unmarshal", false) {
		src := e.Of(um.Common().Args[0])
		rpcO := e.Of(paramOfType(pu, "pb.Rpc"))
		want := "addr(field(Data,field(Body,$R)))"
		ok := false
		why := "decode source " + src.String() + " does not contain &inbound.Body.Data"
		for _, t := range src {
			t.Walk(func(x *Term) {
				env := map[string]string{}
				if Match(x, want, env) {
					for _, r := range rpcO {
						if fullString(r) == env["R"] {
							ok = true
							why = "decode source contains &inbound.Body.Data"
						}
					}
				}
			})
		}
		c.check(rule, "processUnaryRpc:decode-source", ok, why, p.ipos(um))
		c.check(rule, "processUnaryRpc:decode-target", p.sameValue(um.Common().Args[1], dec.Params[0]), "decode target is the message the generated handler passed in", p.ipos(um))
	}
	// reply: Body.Data = Materialize(Marshal(resp)), resp = result 0 of the handler call
	renv := p.envelopeIn("goat.handler.processUnaryRpc")
	okRep, whyRep := false, "reply Body is not a local Body{Data: Materialize(Marshal(handler result))}"
	nRep, badRep := 0, ""
	for _, t := range renv.Fields["Body"].Origins {
		if t.Op != "alloc" {
			continue
		}
		if al, ok := e.allocs[t.Name].(*ssa.Alloc); ok {
			for _, s := range p.allocFieldStores(al, "Data") {
				d := e.Of(s.Val)
				nRep++
				okRep, whyRep = d.AllMatch("call(*Materialize,call(*Marshal#0,_,_))")
				if !okRep && badRep == "" {
					badRep = whyRep + " — the reply must be an owned copy (Materialize) of the marshalled handler result; aliasing codec buffers or altering the bytes corrupts replies under concurrency"
				}
				// the value marshalled is result 0 of the handler invocation (nil alternatives are excluded by the
				// `resp != nil` guard checked in C06.8)
				if cl, isCall := s.Val.(*ssa.Call); okRep && isCall {
					if ex, isEx := cl.Call.Args[0].(*ssa.Extract); isEx {
						if mc, isMC := ex.Tuple.(*ssa.Call); isMC {
							ro := e.Of(mc.Call.Args[len(mc.Call.Args)-1])
							nd := 0
							for _, t := range ro {
								switch {
								case Match(t, "dyncall(#0,field(Handler,_),...)", nil):
									nd++
								case t.Op == "const" && t.Name == "nil", t.Op == "zero":
								default:
									okRep, whyRep = false, "the reply marshalled may be "+t.String()+", not the handler's result"
								}
							}
							if nd == 0 {
								okRep, whyRep = false, "the reply marshalled is never the handler's result: "+ro.String()
							}
						}
					}
				}
			}
		}
	}
	if badRep != "" {
		okRep, whyRep = false, badRep
	}
	c.check(rule, "processUnaryRpc:reply-body", okRep && nRep > 0, whyRep, p.ipos(renv.At()))
	// the codec's buffers are not released while the reply may still reference them
	for _, ci := range p.callsTo(pu, "BufferSlice).Free", true) {
		c.check(rule, "processUnaryRpc:no-buffer-release", false, "the marshalled buffers are handed back to the shared pool inside processUnaryRpc, before the reply envelope has been written", p.ipos(ci.(ssa.Instruction)))
	}
	// client: success result of CallUnaryMethod is the Body of the envelope received on the registered channel
	okRes, whyRes := true, ""
	n := 0
	for _, r := range returnsOf(cm) {
		if len(r.Results) != 2 {
			continue
		}
		for _, t := range e.Of(retVals(r)[0]) {
			if t.Op == "const" {
				continue
			}
			n++
			if !Match(t, "field(Body,recv(_))", nil) {
				okRes, whyRes = false, "CallUnaryMethod may return "+t.String()+" as the reply body"
			}
		}
	}
	if n == 0 {
		okRes, whyRes = false, "no non-nil body is ever returned"
	}
	c.check(rule, "CallUnaryMethod:result-body", okRes, "non-nil results are field(Body, received envelope) "+whyRes, p.pos(cm.Pos()))
	for _, um := range p.callsTo(inv, "CodecV2).Unmarshal", false) {
		src := e.Of(um.Common().Args[0])
		ok := src.ContainsMatch("addr(field(Data,call(client.RpcMultiplexer.CallUnaryMethod#0,...)))") || src.ContainsMatch("addr(field(Data,field(Body,recv(_))))")
		c.check(rule, "invoke:decode-source", ok, "reply decode source "+src.String()+" must be &replyBody.Data", p.ipos(um))
		c.check(rule, "invoke:decode-target", p.sameValue(um.Common().Args[1], paramNamed(inv, "reply")), "reply is decoded into the caller's reply message", p.ipos(um))
	}
}

var _ = token.MUL

// reachesWithout: a function exit is reachable from b without entering avoid.
func (p *Prog) reachesWithout(b, avoid *ssa.BasicBlock) bool {
	seen := map[*ssa.BasicBlock]bool{avoid: true}
	st := []*ssa.BasicBlock{b}
	for len(st) > 0 {
		x := st[len(st)-1]
		st = st[:len(st)-1]
		if seen[x] {
			continue
		}
		seen[x] = true
		if len(x.Succs) == 0 {
			return true
		}
		st = append(st, x.Succs...)
	}
	return false
}

// unwrapThin: a function that only forwards to one in-scope function (a bound-method wrapper, or a closure /
// function whose single block makes one call and returns exactly its results) stands for that function: the
// code playing the role lives there.
func (p *Prog) unwrapThin(f *ssa.Function) *ssa.Function {
	for depth := 0; depth < 4; depth++ {
		g := p.thinTarget(f)
		if g == nil {
			return f
		}
		f = g
	}
	return f
}

func (p *Prog) thinTarget(f *ssa.Function) *ssa.Function {
	if f == nil || len(f.Blocks) != 1 {
		return nil
	}
	var call *ssa.Call
	for _, i := range f.Blocks[0].Instrs {
		switch x := i.(type) {
		case *ssa.Call:
			if call != nil {
				return nil
			}
			call = x
		case *ssa.Store, *ssa.Send, *ssa.Go, *ssa.Defer, *ssa.MapUpdate, *ssa.Select, *ssa.Panic, *ssa.RunDefers, *ssa.MakeClosure:
			return nil
		case *ssa.Return:
			if call == nil {
				return nil
			}
			for _, r := range x.Results {
				switch y := r.(type) {
				case *ssa.Extract:
					if y.Tuple != ssa.Value(call) {
						return nil
					}
				case *ssa.Call:
					if y != call {
						return nil
					}
				default:
					return nil
				}
			}
			if call.Call.Signature().Results().Len() != len(x.Results) {
				return nil
			}
		}
	}
	if call == nil || call.Call.IsInvoke() {
		return nil
	}
	g := call.Call.StaticCallee()
	if g == nil || !p.inScope[g] {
		return nil
	}
	return g
}

// roleNames: a top-level function that is only ever reached through the reader / writer slot of one
// NewFnReadWriter call is named by that role (X$reader / X$writer), like the closure it replaces.
func (p *Prog) roleName(f *ssa.Function) string {
	if p.roleMemo == nil {
		p.roleMemo = map[*ssa.Function]string{}
		for _, x := range p.Funcs {
			for _, ci := range p.callsTo(x, "int.NewFnReadWriter", false) {
				args := ci.Common().Args
				if len(args) != 2 {
					continue
				}
				for k, role := range []string{"$reader", "$writer"} {
					raw := p.calleesOfValue(args[k], p.Origins())
					if len(raw) != 1 {
						continue
					}
					eff := p.unwrapThin(raw[0])
					if eff == raw[0] || eff.Parent() != nil {
						continue
					}
					only := true
					for _, cs := range p.Callers(eff) {
						if p.unwrapThin(cs.caller) != eff {
							only = false
						}
					}
					if only {
						p.roleMemo[eff] = p.fnKey(x) + role
					}
				}
			}
		}
	}
	return p.roleMemo[f]
}
