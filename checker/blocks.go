package main

// E2 `blockops` — blocking primitives, escapes, may-block summaries.
// E8 (part) — goroutine roots.  E3 (part) — channel operation inventory.

import (
	"go/token"
	"go/types"
	"strings"

	"golang.org/x/tools/go/ssa"
)

type BlockOp struct {
	Instr ssa.Instruction
	Kind  string // send, recv, select, wait, sleep, http, transport-read, transport-write, callback:<field>, call:<fn>
	// for selects: the context values whose Done() channel is one of the cases, and other recv-case channels
	EscapeCtx []ssa.Value
	Chans     []ssa.Value // channel operands (send/recv/select states)
	CtxArg    ssa.Value   // for transport ops and ctx-taking calls: the context argument
	Callee    *ssa.Function
}

// Callback contract table: function-typed fields/params of goat structs that the library calls.
// true = may block (must not be called under a registry lock / must be on its own goroutine).
var callbackBlocking = map[string]bool{
	"goat.Proxy.rpcIntercepter":          false, // address rewrite hook; documented as a pure header edit
	"goat.Proxy.clientDisconnect":        false, // notification
	"goat.Proxy.newConnection":           true,  // dials
	"goat.Demux.demuxOn":                 false, // key function
	"goat.Demux.onNewConnection":         true,  // typically Server.Serve
	"goat.GoatOverHttp.onConnect":        true,  // typically Server.Serve
	"goat.GoatOverHttp.sourceToAddress":  false, // pure mapping
	"goat.Server.unaryInterceptor":       true,
	"goat.Server.streamInterceptor":      true,
	"goat.ClientConn.unaryInterceptor":   true,
	"goat.ClientConn.streamInterceptor":  true,
	"grpc.MethodDesc.Handler":            true,
	"grpc.StreamDesc.Handler":            true,
	"goat.httpReadWriter.cancel":         false, // resolved by provenance to goh.unregister
	"int.fnReadWriter.r":                 true,
	"int.fnReadWriter.w":                 true,
	"client.clientStream.teardown":       true, // resolved by provenance
	"goat.streamHandler.cancel":          false,
	"goat.handler.cancel":                false,
	"goat.Server.cancel":                 false,
	"goat.Demux.cancel":                  false,
	"goat.GoatOverHttp.cancel":           false,
	"client.RpcMultiplexer.cancel":       false,
}

// fields that hold user-supplied code even when some stored values resolve to library closures
var userCallback = map[string]bool{
	"goat.Server.unaryInterceptor": true, "goat.Server.streamInterceptor": true,
	"goat.ClientConn.unaryInterceptor": true, "goat.ClientConn.streamInterceptor": true,
	"grpc.MethodDesc.Handler": true, "grpc.StreamDesc.Handler": true,
}

// non-blocking by type
func nonBlockingFuncType(t types.Type) bool {
	k := typeKey(t)
	return k == "context.CancelFunc" || k == "context.CancelCauseFunc"
}

var blockingStatic = map[string]string{
	"(*sync.WaitGroup).Wait":                        "wait",
	"(*golang.org/x/sync/errgroup.Group).Wait":      "wait",
	"time.Sleep":                                    "sleep",
	"(*net/http.Client).Do":                         "http",
	"(*github.com/coder/websocket.Conn).Read":       "ws-read",
	"(*github.com/coder/websocket.Conn).Write":      "ws-write",
	"io.ReadAll":                                    "io-read",
}

const rwIface = "(" + modPath + "/types.RpcReadWriter)"

// classify returns the blocking primitive an instruction is, or nil.
func (p *Prog) classifyBlock(i ssa.Instruction) *BlockOp {
	switch x := i.(type) {
	case *ssa.Send:
		return &BlockOp{Instr: i, Kind: "send", Chans: []ssa.Value{x.Chan}}
	case *ssa.UnOp:
		if x.Op == token.ARROW {
			return &BlockOp{Instr: i, Kind: "recv", Chans: []ssa.Value{x.X}}
		}
	case *ssa.Select:
		if !x.Blocking {
			return nil
		}
		op := &BlockOp{Instr: i, Kind: "select"}
		for _, st := range x.States {
			op.Chans = append(op.Chans, st.Chan)
			if st.Dir == types.RecvOnly {
				if c, ok := st.Chan.(*ssa.Call); ok && c.Call.IsInvoke() && c.Call.Method.Name() == "Done" && typeKey(c.Call.Value.Type()) == "context.Context" {
					op.EscapeCtx = append(op.EscapeCtx, c.Call.Value)
				}
			}
		}
		return op
	case *ssa.Call:
		cc := &x.Call
		n := calleeName(cc)
		if k, ok := blockingStatic[n]; ok {
			op := &BlockOp{Instr: i, Kind: k}
			for _, a := range cc.Args {
				if typeKey(a.Type()) == "context.Context" {
					op.CtxArg = a
				}
				// http.Client.Do(req): the context travels inside the request
				if ex, ok := a.(*ssa.Extract); ok {
					if rc, ok := ex.Tuple.(*ssa.Call); ok && calleeName(&rc.Call) == "net/http.NewRequestWithContext" {
						op.CtxArg = rc.Call.Args[0]
					}
				}
			}
			return op
		}
		if cc.IsInvoke() && strings.HasPrefix(n, rwIface) {
			kind := "transport-read"
			if cc.Method.Name() == "Write" {
				kind = "transport-write"
			}
			return &BlockOp{Instr: i, Kind: kind, CtxArg: cc.Args[0]}
		}
	}
	return nil
}

type blockEngine struct {
	p        *Prog
	ops      map[*ssa.Function][]*BlockOp      // primitives directly in f
	mayBlock map[*ssa.Function]string          // reason ("" = does not block)
	callees  map[ssa.Instruction][]*ssa.Function // resolved in-scope callees per call instr
	unknownDyn []ssa.Instruction
}

// callbackField: if the called value is a load of a function-typed struct field (or a parameter fed from one), name it.
func (p *Prog) callbackField(v ssa.Value) string {
	switch x := v.(type) {
	case *ssa.UnOp:
		if x.Op == token.MUL {
			if fa, ok := x.X.(*ssa.FieldAddr); ok {
				if fk, ok := ownerKey(fa); ok {
					return fk.String()
				}
			}
		}
	case *ssa.Field:
		if fk, ok := ownerKey(x); ok {
			return fk.String()
		}
	case *ssa.Parameter:
		// parameter fed from a callback field at every caller
		names := map[string]bool{}
		f := x.Parent()
		idx := -1
		for i, pr := range f.Params {
			if pr == x {
				idx = i
			}
		}
		for _, cs := range p.Callers(f) {
			if idx < len(cs.args) {
				names[p.callbackField(cs.args[idx])] = true
			}
		}
		if len(names) == 1 {
			for n := range names {
				return n
			}
		}
	}
	return ""
}

func (p *Prog) Blocks() *blockEngine {
	if p.blocks != nil {
		return p.blocks
	}
	e := &blockEngine{p: p, ops: map[*ssa.Function][]*BlockOp{}, mayBlock: map[*ssa.Function]string{}, callees: map[ssa.Instruction][]*ssa.Function{}}
	p.blocks = e
	org := p.Origins()
	direct := map[*ssa.Function]string{}
	for _, f := range p.Funcs {
		allInstrs(f, func(i ssa.Instruction) {
			if op := p.classifyBlock(i); op != nil {
				e.ops[f] = append(e.ops[f], op)
				if direct[f] == "" {
					direct[f] = op.Kind + "@" + p.ipos(i)
				}
				return
			}
			c, ok := i.(*ssa.Call)
			if !ok {
				return
			}
			cc := &c.Call
			if cc.IsInvoke() {
				return
			}
			if cc.StaticCallee() != nil {
				if p.inScope[cc.StaticCallee()] {
					e.callees[i] = []*ssa.Function{cc.StaticCallee()}
				}
				return
			}
			if _, ok := cc.Value.(*ssa.Builtin); ok {
				return
			}
			// dynamic call
			cs := p.calleesOfValue(cc.Value, org)
			if len(cs) > 0 {
				e.callees[i] = cs
			}
			if nonBlockingFuncType(cc.Value.Type()) {
				return
			}
			fld := p.callbackField(cc.Value)
			if blk, known := callbackBlocking[fld]; known && (len(cs) == 0 || userCallback[fld]) {
				if blk {
					op := &BlockOp{Instr: i, Kind: "callback:" + fld}
					e.ops[f] = append(e.ops[f], op)
					if direct[f] == "" {
						direct[f] = op.Kind + "@" + p.ipos(i)
					}
				}
				return
			}
			if len(cs) > 0 {
				return
			}
			// interceptors / handlers passed as parameters of chain builders etc.: by type
			tk := typeKey(cc.Value.Type())
			switch tk {
			case "grpc.UnaryServerInterceptor", "grpc.StreamServerInterceptor", "grpc.UnaryHandler", "grpc.StreamHandler",
				"grpc.UnaryClientInterceptor", "grpc.StreamClientInterceptor":
				op := &BlockOp{Instr: i, Kind: "callback:" + tk}
				e.ops[f] = append(e.ops[f], op)
				if direct[f] == "" {
					direct[f] = op.Kind + "@" + p.ipos(i)
				}
				return
			}
			e.unknownDyn = append(e.unknownDyn, i)
		})
	}
	for f, r := range direct {
		e.mayBlock[f] = r
	}
	// propagate over resolved calls (not go statements)
	for changed := true; changed; {
		changed = false
		for _, f := range p.Funcs {
			if e.mayBlock[f] != "" {
				continue
			}
			allInstrs(f, func(i ssa.Instruction) {
				if e.mayBlock[f] != "" {
					return
				}
				if _, ok := i.(*ssa.Call); !ok {
					return
				}
				for _, g := range e.callees[i] {
					if r := e.mayBlock[g]; r != "" {
						e.mayBlock[f] = "calls " + p.fnKey(g) + " (" + r + ")"
						changed = true
						return
					}
				}
			})
		}
	}
	return e
}

// BlockingAt: if instruction i may block, describe why ("" otherwise).
func (e *blockEngine) BlockingAt(i ssa.Instruction) (string, *BlockOp) {
	for _, op := range e.ops[i.Parent()] {
		if op.Instr == i {
			return op.Kind, op
		}
	}
	if _, ok := i.(*ssa.Call); ok {
		for _, g := range e.callees[i] {
			if r := e.mayBlock[g]; r != "" {
				return "call " + e.p.fnKey(g) + ": " + r, &BlockOp{Instr: i, Kind: "call", Callee: g}
			}
		}
	}
	return "", nil
}

// ---- goroutine roots ----

type GoSite struct {
	Instr   *ssa.Go
	In      *ssa.Function
	Targets []*ssa.Function
	InLoop  bool
}

func (p *Prog) GoSites() []GoSite {
	var out []GoSite
	org := p.Origins()
	for _, f := range p.Funcs {
		allInstrs(f, func(i ssa.Instruction) {
			g, ok := i.(*ssa.Go)
			if !ok {
				return
			}
			gs := GoSite{Instr: g, In: f, InLoop: inLoop(g.Block())}
			if !g.Call.IsInvoke() {
				gs.Targets = p.calleesOfValue(g.Call.Value, org)
			}
			out = append(out, gs)
		})
	}
	return out
}

// reachableFns: functions reachable from f over resolved calls (incl. deferred, excl. go).
func (p *Prog) reachableFns(f *ssa.Function) map[*ssa.Function]bool {
	seen := map[*ssa.Function]bool{}
	org := p.Origins()
	var rec func(g *ssa.Function)
	rec = func(g *ssa.Function) {
		if seen[g] || !p.inScope[g] {
			return
		}
		seen[g] = true
		allInstrs(g, func(i ssa.Instruction) {
			switch x := i.(type) {
			case *ssa.Call:
				if !x.Call.IsInvoke() {
					for _, c := range p.calleesOfValue(x.Call.Value, org) {
						rec(c)
					}
				}
			case *ssa.Defer:
				if !x.Call.IsInvoke() {
					for _, c := range p.calleesOfValue(x.Call.Value, org) {
						rec(c)
					}
				}
			}
		})
	}
	rec(f)
	return seen
}
