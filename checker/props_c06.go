package main

import (
	"go/types"
	"fmt"
	"sort"
	"strings"

	"golang.org/x/tools/go/ssa"
)

// ---- C05.5 ----
func ruleRegistrationKey(c *Ctx, rule string) {
	p := c.p
	rh := p.MustFn("client.RpcMultiplexer.registerHandler")
	n := 0
	for _, mu := range p.MapUpdates(fieldKey{"client.RpcMultiplexer", "handlers"}) {
		n++
		f := mu.Parent()
		ok := f == rh && p.sameValue(mu.Key, paramNamed(rh, "id")) && p.sameValue(mu.Value, paramNamed(rh, "c"))
		c.check(rule, p.fnKey(f)+":handlers[id]=c", ok, "the only registry insertion stores the caller's channel under the caller's id", p.ipos(mu))
	}
	c.floor(rule, "insertions into handlers", n, 1)
	// callers pass their own id (C01.2 shows it is the atomic-add result)
	for _, cs := range p.Callers(rh) {
		o := p.Origins().Of(cs.args[1])
		ok, why := o.AllMatch("call(sync/atomic.AddUint64,_,const(1))")
		c.check(rule, p.fnKey(cs.caller)+":register-arg", ok, "id registered: "+why, p.ipos(cs.instr))
	}
	ps := p.MustFn("goat.handler.processStreamingRpc")
	m := 0
	for _, mu := range p.MapUpdates(fieldKey{"goat.handler", "streams"}) {
		m++
		want := p.fieldOfParam(ps, "pb.Rpc", "Id")
		got := p.Origins().Of(mu.Key)
		c.check(rule, p.fnKey(mu.Parent())+":streams[id]", mu.Parent() == ps && sameTermSet(got, want), "stream registered under the Id of the open envelope: "+got.String(), p.ipos(mu))
	}
	c.floor(rule, "insertions into streams", m, 1)
}

// ---- C06.1 shape catalogue ----
var shapeTable = map[string]string{
	"client.NewStream":                          "Id+Header+Reset_",          // client reset
	"client.RpcMultiplexer.CallUnaryMethod":     "Id+Header+Body",            // unary request
	"client.clientStream.CloseSend":             "Id+Header+Status+Trailer",  // half-close
	"client.clientStream.SendMsg":               "Id+Header+Body",            // body
	"goat.ClientConn.newStream":                 "Id+Header",                 // open
	"goat.handler.processUnaryRpc":              "Id+Header+Status?+Body?+Trailer", // unary reply
	"goat.handler.resetStream":                  "Id+Header+Trailer+Reset_",  // server reset
	"server.serverStream.SendMsg":               "Id+Header+Body",            // body
	"server.serverStream.SendTrailer":           "Id+Header+Status+Trailer",  // trailer
	"server.serverStream.setHeader":             "Id+Header",                 // header-only
}

func ruleShapeCatalogue(c *Ctx, rule string) {
	p := c.p
	seen := map[string]bool{}
	var inv []string
	for _, e := range p.Envelopes() {
		root := p.fnKey(rootFn(e.Fn))
		shape := e.ShapeString()
		inv = append(inv, root+":"+shape)
		want, known := shapeTable[root]
		if !known || seen[root] {
			c.check(rule, "NEW-CONSTRUCT:envelope:"+root+":"+shape, false, "envelope construction site not in the catalogue of the "+fmt.Sprint(len(shapeTable))+" sites the README grammar accounts for", p.ipos(e.At()))
			continue
		}
		seen[root] = true
		c.check(rule, "envelope:"+root, shape == want, fmt.Sprintf("constructed shape %s; protocol shape for this site %s (? = conditionally present)", shape, want), p.ipos(e.At()))
		// every envelope carries a header with method, source, destination
		if e.HFields == nil {
			if root != "client.RpcMultiplexer.CallUnaryMethod" { // header literal built by invoke, checked there
				c.check(rule, "envelope:"+root+":header-literal", false, "Header is not a local literal: addressing cannot be checked", p.ipos(e.At()))
			}
			continue
		}
		for _, hf := range []string{"Method", "Source", "Destination"} {
			fs := e.HFields[hf]
			c.check(rule, "envelope:"+root+":Header."+hf, len(fs.Stores) > 0 && fs.Must, "header field "+hf+" is set on every path", p.ipos(e.At()))
		}
	}
	for root := range shapeTable {
		if !seen[root] {
			c.undecided(rule, "envelope:"+root, "UNDECIDED: required envelope site missing (a protocol shape has no construction site)")
		}
	}
	sort.Strings(inv)
	c.inv("envelope_sites", inv)
	// the unary request header literal (built in invoke)
	inv2 := p.MustFn("goat.ClientConn.invoke")
	nh := 0
	allInstrs(inv2, func(i ssa.Instruction) {
		if a, ok := i.(*ssa.Alloc); ok && typeKey(a.Type()) == "pb.RequestHeader" {
			nh++
			for _, hf := range []string{"Method", "Source", "Destination"} {
				c.check(rule, "envelope:invoke-header:Header."+hf, len(p.allocFieldStores(a, hf)) == 1, "unary request header sets "+hf, p.ipos(a))
			}
		}
	})
	c.floor(rule, "request header literal in invoke", nh, 1)
}

// ---- C06.2 / C06.4 ids and addressing ----
func ruleAddressing(c *Ctx, rule string) {
	p := c.p
	var clientStreamSites, serverSites []*Envelope
	for _, env := range p.Envelopes() {
		root := p.fnKey(rootFn(env.Fn))
		switch root {
		case "client.NewStream", "client.clientStream.CloseSend", "client.clientStream.SendMsg", "goat.ClientConn.newStream":
			clientStreamSites = append(clientStreamSites, env)
		case "goat.handler.processUnaryRpc", "goat.handler.resetStream", "server.serverStream.SendMsg", "server.serverStream.SendTrailer", "server.serverStream.setHeader":
			serverSites = append(serverSites, env)
		}
	}
	// client: Id is the stream's allocated id (the only other origin tolerated is the 0 of the failed-allocation return)
	for _, env := range clientStreamSites {
		root := p.fnKey(rootFn(env.Fn))
		o := env.Fields["Id"].Origins
		hasAlloc := o.Any(func(t *Term) bool { return Match(t, "call(sync/atomic.AddUint64,_,const(1))", nil) })
		okAll, why := o.AllMatch("call(sync/atomic.AddUint64,_,const(1))", "const(0)")
		c.check(rule, root+":Id", hasAlloc && okAll && env.Fields["Id"].Must, "Id ← "+why, p.ipos(env.At()))
	}
	// client: method/source/destination identical across the sites of a stream
	for _, hf := range []string{"Method", "Source", "Destination"} {
		var ref TermSet
		for _, env := range clientStreamSites {
			root := p.fnKey(rootFn(env.Fn))
			if env.HFields == nil {
				continue
			}
			o := env.HFields[hf].Origins
			if ref == nil {
				ref = o
				c.check(rule, root+":Header."+hf, len(o) > 0, "reference origins "+o.String(), p.ipos(env.At()))
				continue
			}
			c.check(rule, root+":Header."+hf, sameTermSet(o, ref), fmt.Sprintf("%s of this envelope ← %s; the stream's other envelopes use %s (must be constant per stream and direction)", hf, o, ref), p.ipos(env.At()))
		}
	}
	// and source ≠ destination roles: Source from the connection's source address, Destination from its dest
	for _, env := range clientStreamSites {
		if env.HFields == nil {
			continue
		}
		root := p.fnKey(rootFn(env.Fn))
		s, d := env.HFields["Source"].Origins, env.HFields["Destination"].Origins
		okS, _ := s.AllMatch("param(goat.NewClientConn:source)")
		okD, _ := d.AllMatch("param(goat.NewClientConn:dest)")
		c.check(rule, root+":source/destination-roles", okS && okD, fmt.Sprintf("Source ← %s, Destination ← %s", s, d), p.ipos(env.At()))
	}
	// server: emits only for ids received, and swaps source/destination of the request
	for _, env := range serverSites {
		root := p.fnKey(rootFn(env.Fn))
		o := env.Fields["Id"].Origins
		okId, why := o.AllMatch("field(Id,call(*RpcReadWriter).Read#0,...))")
		c.check(rule, root+":Id", okId && env.Fields["Id"].Must, "server envelope Id ← "+why+" (must be the Id of an envelope it received)", p.ipos(env.At()))
		if env.HFields == nil {
			continue
		}
		s, d := env.HFields["Source"].Origins, env.HFields["Destination"].Origins
		okS, _ := s.AllMatch("field(Destination,field(Header,call(*RpcReadWriter).Read#0,...)))")
		okD, _ := d.AllMatch("field(Source,field(Header,call(*RpcReadWriter).Read#0,...)))")
		c.check(rule, root+":swap", okS && okD, fmt.Sprintf("responses swap the request's addressing: Source ← %s, Destination ← %s", s, d), p.ipos(env.At()))
	}
	// NewServerStream argument order (two string parameters: swapping them compiles)
	rs := p.MustFn("goat.handler.runStream")
	for _, ci := range p.callsTo(rs, "server.NewServerStream", false) {
		a := ci.Common().Args
		rp := p.lpath(paramOfType(rs, "pb.Rpc"))
		c.check(rule, "runStream:NewServerStream-args", p.lpath(a[3]) == rp+".Header.Destination" && p.lpath(a[4]) == rp+".Header.Source",
			fmt.Sprintf("NewServerStream(src=%s, dst=%s): the stream's source is the request's destination and vice versa", p.lpath(a[3]), p.lpath(a[4])), p.ipos(ci.(ssa.Instruction)))
		c.check(rule, "runStream:NewServerStream-id", p.sameValue(a[1], paramNamed(rs, "streamId")), "the server stream is created with the registered stream id", p.ipos(ci.(ssa.Instruction)))
	}
	ruleReturnRoute(c, rule, serverSites)
}

// ruleReturnRoute: the server's reply/reset return route is the request's route record minus its last hop.
func ruleReturnRoute(c *Ctx, rule string, serverSites []*Envelope) {
	p := c.p
	e := p.Origins()
	if serverSites == nil {
		for _, env := range p.Envelopes() {
			if p.sideOf(env.Fn) == "server" {
				serverSites = append(serverSites, env)
			}
		}
	}
	nroute := 0
	for _, env := range serverSites {
		if env.HFields == nil || len(env.HFields["ProxyNext"].Stores) == 0 {
			continue
		}
		nroute++
		root := p.fnKey(rootFn(env.Fn))
		st := env.HFields["ProxyNext"].Stores[0]
		o := e.Of(st.Val)
		// either the record minus its last hop, or (on the other branch of the len > 1 test) nothing
		okR, why := o.AllMatch("slice(field(ProxyRecord,$H),const(0),binop(-,len(field(ProxyRecord,$H)),const(1)))", "const(nil)")
		// the guard holds where the slice is taken (the store itself may sit after the join)
		var slices []ssa.Instruction
		seenV := map[ssa.Value]bool{}
		var walkV func(v ssa.Value)
		walkV = func(v ssa.Value) {
			if seenV[v] {
				return
			}
			seenV[v] = true
			switch x := v.(type) {
			case *ssa.Slice:
				slices = append(slices, x)
			case *ssa.Phi:
				for _, ed := range x.Edges {
					walkV(ed)
				}
			case *ssa.Call:
				// a helper that computes the route: look at what it returns
				if g := x.Call.StaticCallee(); g != nil && p.inScope[g] {
					for _, r := range returnsOf(g) {
						for _, rv := range retVals(r) {
							walkV(rv)
						}
					}
				}
			}
		}
		walkV(st.Val)
		fs := p.Facts(st)
		guard := len(slices) > 0
		for _, sl := range slices {
			fs = p.Facts(sl)
			g := false
			if fs[atom("cmp>", "len("+p.lpath(sl.(*ssa.Slice).X)+")", "const:1")] {
				g = true // len(x) > 1 for the very x that is sliced (the origin pattern says x is the route record)
			}
			for k := range fs {
				if strings.HasPrefix(k, "cmp>(len(") && strings.HasSuffix(k, ".Header.ProxyRecord),const:1)") {
					g = true
				}
			}
			if !g {
				guard = false
			}
		}
		c.check(rule, root+":ProxyNext", okR && guard, "return route = request's route record minus its last hop, under len>1: "+why+" facts "+fs.String(), p.ipos(st))
	}
	c.floor(rule, "return-route sites", nroute, 2)
}

// ---- C06.3 once-only typestate ----
func ruleOnceOnly(c *Ctx, rule string) {
	p := c.p
	st := p.MustFn("server.serverStream.SendTrailer")
	flag := "p:ss.protected.trailersSent"
	ws := p.transportOps(st, "Write", false)
	if len(ws) != 1 {
		panic(UnresolvedError{"trailer Write in SendTrailer"})
	}
	fs := p.Facts(ws[0])
	c.check(rule, "SendTrailer:write-only-if-unsent", fs.False(flag) || hasStoreTrueDominating(p, st, flag, ws[0]) && testedFalse(p, st, flag), "the trailer is written only when trailersSent was false", p.ipos(ws[0]))
	c.check(rule, "SendTrailer:test-and-set", hasStoreTrueDominating(p, st, flag, ws[0]), "trailersSent = true is stored before the write (test-and-set under the stream lock)", p.ipos(ws[0]))
	c.check(rule, "SendTrailer:under-lock", p.Locks().Must(ws[0])["server.serverStream.protected.Mutex"], "test, set and write happen under the stream lock", p.ipos(ws[0]))
	// client reset: built only under fact sendRst, and sendRst is false or "no trailer ∧ context done" at every caller
	env := p.envelopeIn("client.NewStream$" + strings.TrimPrefix(p.fnKey(p.teardownClosure()), "client.NewStream$"))
	td := p.teardownClosure()
	c.check(rule, "teardown:reset-only-if-sendRst", p.Facts(env.At()).True("p:sendRst"), "the reset envelope is built only under fact sendRst: "+p.Facts(env.At()).String(), p.ipos(env.At()))
	n := 0
	for _, cs := range p.Callers(td) {
		n++
		arg := cs.args[len(cs.args)-1]
		if k, ok := arg.(*ssa.Const); ok {
			c.check(rule, "teardown-caller:"+p.fnKey(cs.caller), k.Value.ExactString() == "false", "caller passes sendRst=false", p.ipos(cs.instr))
			continue
		}
		atoms := p.factsOf(cs.caller).atomsOf(arg, true, map[*ssa.BasicBlock]AtomSet{}, 0)
		noTrailer, ctxDone := false, false
		for _, a := range atoms {
			if a == atom("isnil", "cell:trailer") {
				noTrailer = true
			}
			if strings.HasPrefix(a, "nonnil(") {
				ctxDone = true
			}
		}
		// the phi's other edge facts are in out[]: recompute with the function's fixpoint
		fr := p.factsOf(cs.caller)
		_ = fr
		if !noTrailer {
			// expand the phi manually: sendRst = trailer == nil && ctx.Err() != nil
			if ph, ok := arg.(*ssa.Phi); ok {
				for ei, ed := range ph.Edges {
					if _, isC := ed.(*ssa.Const); !isC {
						pred := ph.Block().Preds[ei]
						for d := pred; d != nil; d = d.Idom() {
							if ifi, ok := d.Instrs[len(d.Instrs)-1].(*ssa.If); ok {
								for _, a := range p.factsOf(cs.caller).atomsOf(ifi.Cond, true, map[*ssa.BasicBlock]AtomSet{}, 0) {
									if a == atom("isnil", "cell:trailer") {
										noTrailer = true
									}
								}
							}
						}
						for _, a := range p.factsOf(cs.caller).atomsOf(ed, true, map[*ssa.BasicBlock]AtomSet{}, 0) {
							if strings.HasPrefix(a, "nonnil(") {
								ctxDone = true
							}
						}
					}
				}
			}
		}
		c.check(rule, "teardown-caller:"+p.fnKey(cs.caller), noTrailer && ctxDone, fmt.Sprintf("sendRst is true only when no trailer was received (%v) and the stream context is done (%v)", noTrailer, ctxDone), p.ipos(cs.instr))
	}
	c.floor(rule, "callers of the teardown closure", n, 3)
	// the deferred block runs once per stream: it is deferred by readLoop, which is started by exactly one go site
	rl := p.MustFn("client.clientStream.readLoop")
	ngo := 0
	for _, gs := range p.GoSites() {
		for _, t := range gs.Targets {
			if t == rl {
				ngo++
				c.check(rule, "readLoop:one-per-stream", !gs.InLoop && p.fnKey(gs.In) == "client.NewStream", "the stream read loop (whose deferred block may reset) is started once, by NewStream", p.ipos(gs.Instr))
			}
		}
	}
	c.floor(rule, "go sites of clientStream.readLoop", ngo, 1)
}

func (p *Prog) teardownClosure() *ssa.Function {
	ns := p.MustFn("client.NewStream")
	// the closure stored into clientStream.teardown
	for _, s := range p.FieldStores(fieldKey{"client.clientStream", "teardown"}) {
		if fs := p.calleesOfValue(s.Val, p.Origins()); len(fs) == 1 && rootFn(fs[0]) == ns {
			return fs[0]
		}
	}
	panic(UnresolvedError{"closure stored in clientStream.teardown"})
}

func hasStoreTrueDominating(p *Prog, f *ssa.Function, loc string, before ssa.Instruction) bool {
	found := false
	allInstrs(f, func(i ssa.Instruction) {
		if s, ok := i.(*ssa.Store); ok && p.locPath(s.Addr) == loc {
			if k, isC := s.Val.(*ssa.Const); isC && k.Value.ExactString() == "true" && instrDominates(i, before) {
				found = true
			}
		}
	})
	return found
}

func testedFalse(p *Prog, f *ssa.Function, loc string) bool {
	found := false
	allInstrs(f, func(i ssa.Instruction) {
		if s, ok := i.(*ssa.Store); ok && p.locPath(s.Addr) == loc {
			if p.Facts(i).False(loc) {
				found = true
			}
		}
	})
	return found
}

// ---- C06.5 single writer per server connection ----
func ruleSingleWriter(c *Ctx, rule string) {
	p := c.p
	w := p.serveWriter()
	n := 0
	for _, f := range p.Funcs {
		for _, wr := range p.transportOps(f, "Write", false) {
			// receiver is the connection transport h.rw
			if p.locPathOfLoad(wr.Call.Value) != "goat.handler.rw" {
				continue
			}
			n++
			construct := p.fnKey(f) + ":h.rw.Write"
			c.check(rule, construct, f == w, "a Write on the server connection's transport outside the writer goroutine can overtake envelopes queued on writeChan (a reset written directly overtakes the trailer of the stream it answers)", p.ipos(wr))
		}
	}
	c.floor(rule, "writes on the connection transport", n, 1)
}

// locPathOfLoad: "owner.field" when v is a load of a goat-owned struct field.
func (p *Prog) locPathOfLoad(v ssa.Value) string {
	if fk, ok := mapField(v); ok {
		return fk.String()
	}
	return ""
}

// ---- C06.6 ----
func ruleTrailerBeforeUnregister(c *Ctx, rule string) {
	p := c.p
	rs := p.MustFn("goat.handler.runStream")
	var unreg *ssa.Defer
	for _, ci := range p.callsTo(rs, "goat.handler.unregisterStream", false) {
		if d, ok := ci.(*ssa.Defer); ok {
			unreg = d
		}
	}
	if unreg == nil {
		c.check(rule, "runStream:deferred-unregister", false, "unregisterStream is not deferred in runStream", p.pos(rs.Pos()))
		return
	}
	// first defer registered ⇒ runs last
	first := true
	allInstrs(rs, func(i ssa.Instruction) {
		if d, ok := i.(*ssa.Defer); ok && d != unreg && !instrDominates(unreg, d) {
			first = false
		}
	})
	c.check(rule, "runStream:unregister-deferred-first", first, "unregisterStream is the first defer registered, so it runs after everything else at exit (also on handler panic)", p.ipos(unreg))
	for _, ci := range p.callsTo(rs, "server.serverStream.SendTrailer", false) {
		c.check(rule, "runStream:trailer-before-unregister", instrDominates(unreg, ci.(ssa.Instruction)), "the trailer is queued in the body, i.e. before the deferred unregistration runs", p.ipos(ci.(ssa.Instruction)))
	}
	c.check(rule, "runStream:unregister-id", p.sameValue(unreg.Call.Args[1], paramNamed(rs, "streamId")), "the id unregistered is the id the stream was registered under", p.ipos(unreg))
}

// ---- C06.7 unknown-stream answers ----
func ruleUnknownStream(c *Ctx, rule string) {
	p := c.p
	f := p.MustFn("goat.handler.processStreamingRpc")
	has := "has:p:h.streams[p:rpc.Id]"
	// the "this envelope is a reset" predicate(s): boolean values computed from the envelope's Reset_ field
	var resetPaths []string
	allInstrs(f, func(i ssa.Instruction) {
		v, ok := i.(ssa.Value)
		if !ok {
			return
		}
		if b, isB := v.Type().Underlying().(*types.Basic); !isB || b.Kind() != types.Bool {
			return
		}
		switch v.(type) {
		case *ssa.Phi, *ssa.BinOp:
		default:
			return
		}
		isReset, mixed := false, false
		for _, t := range p.Origins().Of(v) {
			if t.Has(func(x *Term) bool {
				return x.Op == "field" && x.Name == "Reset_" || x.Op == "call" && strings.HasSuffix(x.Name, ".GetReset_")
			}) {
				isReset = true
			}
			// a condition that also depends on the registry (`known && reset`) says nothing about reset when false
			if t.Has(func(x *Term) bool { return x.Op == "lookup" || x.Op == "lookupok" }) {
				mixed = true
			}
		}
		// `a && b` is φ[false ← ¬a, b]: its falsity says "not a reset" only if a, too, is about the Reset_ field
		if ph, isPhi := v.(*ssa.Phi); isPhi && isReset {
			for k, ed := range ph.Edges {
				if _, isC := ed.(*ssa.Const); !isC {
					continue
				}
				pr := ph.Block().Preds[k]
				ifi, ok := pr.Instrs[len(pr.Instrs)-1].(*ssa.If)
				if !ok {
					mixed = true
					continue
				}
				pure := false
				for _, t := range p.Origins().Of(ifi.Cond) {
					if t.Has(func(x *Term) bool {
						return x.Op == "field" && x.Name == "Reset_" || x.Op == "call" && strings.HasSuffix(x.Name, ".GetReset_")
					}) {
						pure = true
					}
				}
				if !pure {
					mixed = true
				}
			}
		}
		if isReset && !mixed {
			resetPaths = append(resetPaths, p.lpath(v))
		}
	})
	isNotReset := func(fs AtomSet) bool {
		if fs.IsNil("p:rpc.Reset_") {
			return true
		}
		for _, rp := range resetPaths {
			if fs.False(rp) {
				return true
			}
		}
		return false
	}
	if len(resetPaths) == 0 {
		c.undecided(rule, "processStreamingRpc:reset-predicate", "no boolean computed from the envelope's Reset_ field found in processStreamingRpc")
	}
	n := 0
	for _, ci := range p.callsTo(f, "goat.handler.resetStream", false) {
		n++
		fs := p.Facts(ci.(ssa.Instruction))
		unknown := fs.False(has)
		notReset := isNotReset(fs)
		reason := fs.NonNil("p:rpc.Body")
		for k := range fs {
			if strings.HasPrefix(k, "nonnil(v:") && strings.HasSuffix(k, "#2)") {
				reason = true // error result of contextFromHeaders
			}
		}
		c.check(rule, fmt.Sprintf("processStreamingRpc:reset#%d", n), unknown && notReset && reason, "a reset is answered only for an unknown stream, to a non-reset envelope, that carries a body or undecodable metadata: "+fs.String(), p.ipos(ci.(ssa.Instruction)))
	}
	c.floor(rule, "resetStream call sites", n, 2)
	for _, g := range p.goStmts(f) {
		fs := p.Facts(g)
		// the registry insertion that precedes the go statement invalidates what is known about the map:
		// take the facts just before the insertion
		for _, mu := range p.MapUpdates(fieldKey{"goat.handler", "streams"}) {
			if mu.Parent() == f && instrDominates(mu, g) {
				fs = p.Facts(mu)
			}
		}
		ok := fs.False(has) && fs.IsNil("p:rpc.Body") && fs.IsNil("p:rpc.Trailer")
		notReset := isNotReset(fs)
		c.check(rule, "processStreamingRpc:open", ok && notReset, "a handler is started only for an unknown id, by an envelope that is not a reset and carries neither body nor trailer: "+fs.String(), p.ipos(g))
	}
	// a reset / trailer for an unknown stream writes nothing: every return under those facts is not preceded by a write or reset
	// (checked by the facts on the reset calls above: none of them holds true(reset) or nonnil(Trailer) without Body)
	// known stream: reset ⇒ cancel, else forward
	for _, u := range p.chanUsesIn(f) {
		if u.kind == "send" {
			fs := p.Facts(u.instr)
			c.check(rule, "processStreamingRpc:forward-known", fs.True(has), "envelopes are forwarded only to a registered stream: "+fs.String(), p.ipos(u.instr))
		}
	}
}

// ---- C06.8 unary reply completeness ----
func ruleUnaryReplyComplete(c *Ctx, rule string) {
	p := c.p
	env := p.envelopeIn("goat.handler.processUnaryRpc")
	for _, fn := range []string{"Header", "Trailer"} {
		fs := env.Fields[fn]
		c.check(rule, "reply:"+fn, fs.Must && !fs.MaybeNil, "unary reply always carries "+fn, p.ipos(env.At()))
	}
	// Body stored under facts resp != nil ∧ marshal ok
	n := 0
	for _, t := range env.Fields["Body"].Origins {
		al, ok := p.Origins().allocs[t.Name].(*ssa.Alloc)
		if !ok || t.Op != "alloc" {
			continue
		}
		n++
		fs := p.Facts(al)
		respOK, marshalOK := false, false
		pu := p.MustFn("goat.handler.processUnaryRpc")
		for _, mc := range p.callsTo(pu, "CodecV2).Marshal", false) {
			a := mc.Common().Args
			if fs.NonNil(p.lpath(a[len(a)-1])) {
				respOK = true
			}
			if fs.IsNil(p.lpath(mc.(*ssa.Call)) + "#1") {
				marshalOK = true
			}
		}
		c.check(rule, "reply:Body-guard", respOK && marshalOK, "a body is attached exactly when the handler produced a reply and it marshalled: "+fs.String(), p.ipos(al))
	}
	c.floor(rule, "reply body attachments", n, 1)
}
