#!/usr/bin/env python3
"""Regenerates /verif/MANIFEST.json from the property list and the per-property notes below."""
import json, os
V = "/verif"
props = [json.loads(l) for l in open(f"{V}/properties.jsonl")]
techniques = {
 "C01": "static provenance (backward origin terms over SSA) + dominance + exactly-once path search",
 "C02": "queue/goroutine multiplicity table vs SSA inventory + path facts + close/send exclusion",
 "C03": "field-transfer provenance + value-or-error postcondition by path facts",
 "C04": "literal-table agreement of sibling converters + provenance of every metadata hop + typestate facts",
 "C05": "interprocedural must-lockset (static Eraser) on registries + provenance of ids and keys",
 "C06": "envelope shape catalogue + field provenance + typestate facts + who-may-call (single writer)",
 "C07": "context ancestry (provenance) + escapability of blocking primitives + path facts",
 "C08": "literal-table extraction and agreement + guard facts + arithmetic-site bound check",
 "C09": "locksets + path facts (check-then-act atomicity) + must-pass-through",
 "C10": "context ancestry + escapability of blocking primitives per goroutine root + pairing",
 "C11": "interprocedural may-lockset x blocking-primitive inventory + lock-order graph",
 "C12": "control-dependence facts at dispatch sites + peer-taint of panic guards + nil-guard facts",
 "C13": "value-or-error facts + must-pass-through (latch, terminal error) + close/send exclusion",
 "C14": "acquire/release pairing with ownership transfer over CFG + call graph",
 "C15": "static Eraser: guard table vs interprocedural must-locksets; store whitelist",
 "C16": "provenance of forwarded value and lookup key + store whitelist + queue roles",
 "C17": "dominating gate facts + taint of panic guards + may-block summary of the forwarding loop",
 "C18": "provenance + locksets (close/send exclusion) + escapability",
 "C19": "escapability per RpcReadWriter implementation + guard facts + provenance",
 "C20": "pairing (Begin/End) + dominance + recurrence check on the chain builders",
}
checks = []
for p in props:
    pid = p["id"]
    checks.append({
        "property_id": pid,
        "quick_cmd": f"/verif/bin/check {pid} quick",
        "thorough_cmd": f"/verif/bin/check {pid} thorough",
        "evidence_file": f"/verif/evidence/{pid}.json",
        "replay_cmd_template": f"/verif/bin/check {pid} replay {{path}}",
        "engine": "goatcheck",
        "level_claimed": {
            "category": "other",
            "text": ("Static analysis of /repo's current source (go/packages + go/ssa, no execution): the structural necessary "
                     "conditions of this property listed in DESIGN.md section 3 (" + pid + ".k) are decided exactly, on every CFG path "
                     "and every resolved call-graph path, for every input/schedule at once. The behaviour itself (values, liveness, "
                     "timing, concrete interleavings) is NOT decided; a tree can satisfy every rule and still violate the property "
                     "at run time. This is the strongest level a sound static argument reaches for a behavioural property."),
            "design_ref": f"DESIGN.md section 3, {pid}; addendum section 8",
        },
        "level_note": ("Trusted base: Go type checker, go/ssa (x/tools v0.29.0); documented contracts of context, grpc/status, "
                       "grpc/metadata, protobuf, encoding/base64 used as axioms; the role/guard/queue/shape tables frozen in the checker "
                       "(one reason per entry, re-validated against the tree each run); callbacks listed non-blocking are; the in-memory source normalisation of DESIGN 8.10 (rename overlay, splicing of new helper functions into their callers, reclosure — the overlay must type-check, what was rewritten is printed and recorded in the evidence) preserves behaviour except that a spliced helper's `defer x.Unlock()` is replayed at its exits and would not run on a panic inside it."),
        "technique": techniques[pid],
    })
m = {
 "version": 1,
 "setup_cmd": "cd /verif/checker && GOFLAGS=-mod=mod GOPROXY=off GOSUMDB=off GOTOOLCHAIN=local GOWORK=off go build -o /verif/bin/goatcheck .",
 "hooks": {
  "guard": "verif",
  "enable": "none needed: static analysis reads the source; the thorough tier additionally loads /repo with -tags verif and requires identical verdicts",
  "baseline_off_cmd": "cd /repo && go test -vet=off -count=1 -timeout 25m ./...",
  "source_commits": [],
  "add_only": True,
 },
 "engines": [{
  "name": "goatcheck",
  "path": "/verif/checker",
  "serves_properties": [p["id"] for p in props],
  "kind_free_text": "purpose-built static analyser over go/ssa: provenance, control-dependence facts, must/may locksets, blocking-primitive inventory, pairing, envelope shape catalogue, queue/goroutine multiplicities, literal-table agreement",
 }],
 "checks": checks,
 "notes": "All claims are level `other` (structural necessary conditions). Genuine defects found on the pinned tree are in /verif/known_findings.json (open = printed as KNOWN-FINDING, fixed = repaired by a fix: commit in /repo and armed).",
 "not_applicable": [],
}
json.dump(m, open(f"{V}/MANIFEST.json", "w"), indent=1)
print("wrote MANIFEST.json with", len(checks), "checks")
