package main

import (
	"sort"
	"fmt"
	"go/token"
	"go/types"
	"strings"

	"golang.org/x/tools/go/ssa"
)

// ================= C17 =================

func ruleProxySourceGate(c *Ctx, rule string) {
	p := c.p
	fw := p.MustFn("goat.Proxy.forwardRpc")
	// the gate is a program point (dominating the site) at which both facts hold; the address-rewriting
	// interceptor that runs after the gate may legitimately change the header afterwards
	gate := func(name string, i ssa.Instruction) {
		hdr, src := false, false
		for d := i.Block(); d != nil; d = d.Idom() {
			probe := d.Instrs[0]
			if d == i.Block() {
				probe = i
			}
			fs := p.Facts(probe)
			if fs.NonNil("p:rpc.Header") {
				hdr = true
			}
			if fs.Eq("p:rpc.Header.Source", "p:source") {
				src = true
			}
		}
		c.check(rule, "forwardRpc:"+name+":header-present", hdr, "reached only through a point where the header is known present", p.ipos(i))
		c.check(rule, "forwardRpc:"+name+":source-matches", src, "reached only through a point where the claimed source equals the name the sending connection is attached under", p.ipos(i))
	}
	n := 0
	for _, u := range p.chanUsesIn(fw) {
		if u.kind == "send" {
			n++
			gate("enqueue", u.instr)
		}
	}
	allInstrs(fw, func(i ssa.Instruction) {
		if cl, ok := i.(*ssa.Call); ok && p.callbackField(cl.Call.Value) == "goat.Proxy.rpcIntercepter" {
			n++
			gate("interceptor", i)
		}
		if s, ok := i.(*ssa.Store); ok {
			if fa, ok := s.Addr.(*ssa.FieldAddr); ok && isProtoMsg(fa.X.Type()) {
				gate("rewrite:"+fieldName(fa), i)
			}
		}
	})
	c.floor(rule, "gated sites in forwardRpc", n, 2)
	rulePanicReachability(c, rule, p.reachFns("goat.Proxy.", "goat.proxyClient.", "goat.NewProxy"))
}

func ruleForwardingLoopNeverWaits(c *Ctx, rule string) {
	p := c.p
	sc := p.MustFn("goat.Proxy.serveClients")
	be := p.Blocks()
	n := 0
	for g := range p.reachableFns(sc) {
		for _, op := range be.ops[g] {
			n++
			construct := p.cname(g) + ":" + p.opDesc(op)
			if g == sc && op.Kind == "select" && len(op.EscapeCtx) > 0 {
				okCmd := false
				for _, ch := range op.Chans {
					if p.chanDesc(ch) == "commands" {
						okCmd = true
					}
				}
				c.check(rule, construct, okCmd, "the forwarding loop's own wait for the next command (escapable by the proxy context)", p.ipos(op.Instr))
				continue
			}
			c.check(rule, construct, false, "the single forwarding loop can block here on one destination/peer: traffic between all other peers stops", p.ipos(op.Instr))
		}
	}
	c.floor(rule, "blocking primitives reachable from the forwarding loop", n, 1)
	// dialling happens on its own goroutine
	ao := p.MustFn("goat.Proxy.addOutgoingConnectionLocked")
	okGo := false
	for _, g := range p.goStmts(ao) {
		for _, t := range p.calleesOfValue(g.Call.Value, p.Origins()) {
			if p.fnKey(t) == "goat.proxyClient.connect" {
				okGo = true
			}
		}
	}
	c.check(rule, "addOutgoingConnectionLocked:dial-on-own-goroutine", okGo && len(p.callsTo(ao, "goat.proxyClient.connect", false)) == 1, "dialling (a blocking callback) runs on its own goroutine, not in the forwarding loop", p.pos(ao.Pos()))
}

func ruleRemovalIdentityChecked(c *Ctx, rule string) {
	p := c.p
	sc := p.MustFn("goat.Proxy.serveClients")
	n := 0
	// the removal may live in serveClients or in a helper it calls
	var fam []*ssa.Function
	for g := range p.reachableFns(sc) {
		fam = append(fam, g)
	}
	sort.Slice(fam, func(i, j int) bool { return p.fnKey(fam[i]) < p.fnKey(fam[j]) })
	for _, scf := range fam {
	allInstrs(scf, func(i ssa.Instruction) {
		cl, ok := i.(*ssa.Call)
		if !ok {
			return
		}
		b, ok := cl.Call.Value.(*ssa.Builtin)
		if !ok || b.Name() != "delete" {
			return
		}
		if fk, ok := mapField(cl.Call.Args[0]); !ok || fk.String() != "goat.Proxy.clients" {
			return
		}
		n++
		fs := p.Facts(i)
		ident := false
		for k := range fs {
			// a comparison between the registry's current entry and something carried by the command
			if strings.HasPrefix(k, "eq(") && strings.Contains(k, "lookup:p:p.clients[") {
				ident = true
			}
		}
		c.check(rule, "serveClients:delete-by-name", ident, "on a connection failure the peer table entry is deleted by name alone (facts: "+fs.String()+"): when a peer re-attached under its name and the old connection then fails, the newer connection is forgotten and replies to that peer are lost", p.ipos(i))
		c.check(rule, "serveClients:delete-under-lock", p.Locks().Must(i)["goat.Proxy.mutex"], "the removal happens under the peer-table lock", p.ipos(i))
	})
	}
	c.floor(rule, "removals from the peer table", n, 1)
}

func (p *Prog) proxyPeerFns() []*ssa.Function {
	var out []*ssa.Function
	for _, f := range p.Funcs {
		if strings.HasPrefix(p.fnKey(rootFn(f)), "goat.proxyClient.") {
			out = append(out, f)
		}
	}
	return out
}

func rulePeerLoopsCanExit(c *Ctx, rule string) {
	p := c.p
	exc := map[string]string{
		"goat.proxyClient.readWrite:wait": "errgroup.Wait on the two loops of this peer, each of which is itself escapable by the proxy context",
	}
	n := ruleEscapable(c, rule, p.proxyPeerFns(), exc, func(op *BlockOp, ctx ssa.Value) (bool, string) {
		return p.lpath(ctx) == "p:ctx", "escape context " + p.lpath(ctx) + " (the context the peer loop runs with)"
	})
	c.floor(rule, "blocking primitives in the peer loops", n, 6)
	// the peer loops run with the proxy context
	for _, gs := range p.GoSites() {
		for _, t := range gs.Targets {
			k := p.fnKey(t)
			if k == "goat.proxyClient.readWrite" || k == "goat.proxyClient.connect" {
				an := p.ancestryOfValue(gs.Instr.Call.Args[1])
				okRoot := len(an.Roots) > 0
				for r := range an.Roots {
					if !strings.HasPrefix(r, "param(goat.NewProxy:ctx)") {
						okRoot = false
					}
				}
				c.check(rule, "go:"+p.fnKey(gs.In)+"→"+k+":context", okRoot, fmt.Sprintf("peer goroutine runs with a context rooted in %v (required: the proxy's context)", an.RootList()), p.ipos(gs.Instr))
			}
		}
	}
}

func ruleFailureReported(c *Ctx, rule string) {
	p := c.p
	n := 0
	for _, f := range p.proxyPeerFns() {
		for _, u := range p.chanUsesIn(f) {
			if u.kind != "send" || p.chanDesc(u.ch) != "toServer" {
				continue
			}
			sv := sendOf(u)
			ld, ok := sv.(*ssa.UnOp)
			if !ok {
				continue
			}
			al, ok := ld.X.(*ssa.Alloc)
			if !ok {
				continue
			}
			es := p.allocFieldStores(al, "err")
			if len(es) == 0 {
				continue // an rpc command
			}
			fs := p.Facts(u.instr)
			ids := p.allocFieldStores(al, "id")
			okId := len(ids) == 1 && strings.HasSuffix(p.lpath(ids[0].Val), "c.id")
			if pr, isParam := es[0].Val.(*ssa.Parameter); isParam {
				// a reporting helper: the error is non-nil at every call site, and each caller returns afterwards
				idx := -1
				for k, x := range f.Params {
					if x == pr {
						idx = k
					}
				}
				for _, cs := range p.Callers(f) {
					n++
					cfs := p.Facts(cs.instr)
					okErr := idx >= 0 && idx < len(cs.args) && cfs.NonNil(p.lpath(cs.args[idx]))
					c.check(rule, p.cname(cs.caller)+":error-command", okErr && okId, "a failing Read/Write/dial reports exactly its error under the peer's own name: "+cfs.String(), p.ipos(cs.instr))
					bad := noSecondBefore(cs.instr, func(i ssa.Instruction) bool {
						_, isSend := i.(*ssa.Send)
						_, isSel := i.(*ssa.Select)
						_, isCall := i.(*ssa.Call)
						return isSend || isSel || isCall && len(p.Blocks().callees[i]) > 0
					}, func(i ssa.Instruction) bool { _, r := i.(*ssa.Return); return r })
					c.check(rule, p.cname(cs.caller)+":error-command-once", bad == nil, "after reporting, the loop returns without sending anything else", p.ipos(cs.instr))
				}
				continue
			}
			n++
			okErr := fs.NonNil(p.lpath(es[0].Val))
			c.check(rule, p.cname(f)+":error-command", okErr && okId, "a failing Read/Write/dial reports exactly its error under the peer's own name: "+fs.String(), p.ipos(u.instr))
			// followed by a return (the loop ends)
			bad := noSecondBefore(u.instr, func(i ssa.Instruction) bool {
				_, isSend := i.(*ssa.Send)
				_, isSel := i.(*ssa.Select)
				return isSend || isSel
			}, func(i ssa.Instruction) bool { _, r := i.(*ssa.Return); return r })
			c.check(rule, p.cname(f)+":error-command-once", bad == nil, "after reporting, the loop returns without sending anything else", p.ipos(u.instr))
		}
	}
	c.floor(rule, "error reports from peer loops", n, 3)
	// the callback runs outside the lock
	sc := p.MustFn("goat.Proxy.serveClients")
	for scf := range p.reachableFns(sc) {
	allInstrs(scf, func(i ssa.Instruction) {
		if cl, ok := i.(*ssa.Call); ok && p.callbackField(cl.Call.Value) == "goat.Proxy.clientDisconnect" {
			c.check(rule, "serveClients:callback-outside-lock", !p.Locks().May(i)["goat.Proxy.mutex"], "the disconnect callback is invoked with the peer table unlocked", p.ipos(i))
			a := cl.Call.Args
			c.check(rule, "serveClients:callback-args", len(a) == 2 && strings.HasSuffix(p.lpath(a[0]), ".id") && strings.HasSuffix(p.lpath(a[1]), ".err"), "the callback receives the failed peer's name and its error", p.ipos(i))
		}
	})
	}
}

func ruleContextEndsLoop(c *Ctx, rule string) {
	p := c.p
	sc := p.MustFn("goat.Proxy.serveClients")
	ok := false
	for _, op := range p.Blocks().ops[sc] {
		if op.Kind == "select" && len(op.EscapeCtx) == 1 && p.lpath(op.EscapeCtx[0]) == "p:ctx" {
			sel := op.Instr.(*ssa.Select)
			for _, r := range returnsOf(sc) {
				if instrDominates(sel, r) {
					ok = true
				}
			}
		}
	}
	c.check(rule, "serveClients:returns-on-context", ok, "the forwarding loop selects on its context and returns when it is done", p.pos(sc.Pos()))
	sv := p.MustFn("goat.Proxy.Serve")
	for _, ci := range p.callsTo(sv, "goat.Proxy.serveClients", false) {
		c.check(rule, "Serve:passes-proxy-context", p.locPathOfLoad(ci.Common().Args[1]) == "goat.Proxy.ctx", "Serve runs the loop with the proxy's context", p.ipos(ci.(ssa.Instruction)))
	}
}

// ================= C18 =================

func ruleDemuxRouting(c *Ctx, r1, r2 string) {
	p := c.p
	run := p.MustFn("goat.Demux.Run")
	_, rpc := p.readResult(run)
	le := p.Locks()
	lock := "goat.Demux.conns.Mutex"
	// the lookup-or-create function: Run itself, or a helper it was extracted into (the function calling newConnLocked)
	loc := run
	var helperCall *ssa.Call
	for _, f := range p.Funcs {
		if len(p.callsTo(f, "goat.Demux.newConnLocked ", false)) > 0 {
			loc = f
		}
	}
	envelope := rpc
	if loc != run {
		hc := p.oneCall(run, p.fnKey(loc)+" ", false).(*ssa.Call)
		helperCall = hc
		// the helper is given the envelope just read
		okArg := false
		for k, a := range hc.Call.Args {
			if p.sameValue(a, rpc) && k < len(loc.Params) {
				envelope = loc.Params[k]
				okArg = true
			}
		}
		c.check(r1, "Run:helper-gets-the-envelope-read", okArg, "the lookup-or-create helper is called with the envelope just read", p.ipos(hc))
	}
	var lk *ssa.Lookup
	allInstrs(loc, func(i ssa.Instruction) {
		if l, ok := i.(*ssa.Lookup); ok {
			if fk, ok := mapField(l.X); ok && fk.String() == "goat.Demux.conns.value" {
				lk = l
			}
		}
	})
	if lk == nil {
		panic(UnresolvedError{"lookup in Demux.conns.value in " + p.fnKey(loc)})
	}
	// key = demuxOn(envelope)
	keyOK := false
	if cl, ok := lk.Index.(*ssa.Call); ok && p.callbackField(cl.Call.Value) == "goat.Demux.demuxOn" && p.sameValue(cl.Call.Args[0], envelope) {
		keyOK = true
	}
	c.check(r1, "Run:key-is-demuxOn(envelope)", keyOK, "the connection is selected by the caller's key function applied to the envelope just read", p.ipos(lk))
	// connPhi: value that is "the entry looked up, or the one created for the same key when absent"
	isLookupOrCreate := func(cv ssa.Value) bool {
		ph, ok := cv.(*ssa.Phi)
		if !ok {
			return false
		}
		okT := true
		for _, ed := range ph.Edges {
			switch x := ed.(type) {
			case *ssa.Extract:
				if x.Tuple != ssa.Value(lk) {
					okT = false
				}
			case *ssa.Call:
				if x.Call.StaticCallee() == nil || p.fnKey(x.Call.StaticCallee()) != "goat.Demux.newConnLocked" || !p.sameValue(x.Call.Args[1], lk.Index) {
					okT = false
				} else {
					fs := p.Facts(x)
					c.check(r2, "Run:create-only-if-absent", fs.False(p.lpath(extractOf(lk, 1))) && le.Must(x)[lock] && le.Must(lk)[lock], "a logical connection is created only when the key is absent, in the critical section of the lookup: "+fs.String(), p.ipos(x))
				}
			default:
				okT = false
			}
		}
		return okT
	}
	n := 0
	for _, u := range p.chanUsesIn(run) {
		if u.kind != "send" {
			continue
		}
		n++
		c.check(r1, "Run:hands-over-the-envelope-read", p.sameValue(sendOf(u), rpc), "the value handed to the logical connection is the envelope read", p.ipos(u.instr))
		var cv ssa.Value
		if ld, ok := u.ch.(*ssa.UnOp); ok {
			if fa, ok := ld.X.(*ssa.FieldAddr); ok && fieldName(fa) == "r" {
				cv = fa.X
			}
		}
		okT := false
		if helperCall == nil {
			okT = isLookupOrCreate(cv)
		} else {
			// the target is what the helper returned, and the helper returns the looked-up-or-created entry
			okT = cv == ssa.Value(helperCall)
			for _, r := range returnsOf(loc) {
				if !isLookupOrCreate(retVals(r)[0]) {
					okT = false
				}
			}
		}
		c.check(r1, "Run:send-target", okT, "the envelope goes to the connection looked up under the key or the one just created for that same key", p.ipos(u.instr))
	}
	c.floor(r1, "hand-off sends in Run", n, 1)
	// creation: one registry store under the requested key, one writer goroutine, one announcement, none in a loop
	nc := p.MustFn("goat.Demux.newConnLocked")
	nmu := 0
	for _, mu := range p.MapUpdates(fieldKey{"goat.Demux.conns", "value"}) {
		if mu.Parent() == nc {
			nmu++
			c.check(r2, "newConnLocked:registers-under-key", p.sameValue(mu.Key, paramNamed(nc, "id")) && !inLoop(mu.Block()), "the new connection is stored once under the requested key", p.ipos(mu))
		}
	}
	c.check(r2, "newConnLocked:one-registration", nmu == 1, fmt.Sprintf("%d registry stores", nmu), p.pos(nc.Pos()))
	gos := p.goStmts(nc)
	nw, na := 0, 0
	for _, g := range gos {
		if inLoop(g.Block()) {
			c.check(r2, "newConnLocked:go-in-loop", false, "goroutine started in a loop", p.ipos(g))
		}
		if p.callbackField(g.Call.Value) == "goat.Demux.onNewConnection" {
			na++
			// announced: the very record stored in the registry (which is the logical connection's transport)
			okA := false
			for _, mu := range p.MapUpdates(fieldKey{"goat.Demux.conns", "value"}) {
				if mu.Parent() == nc && p.sameValue(stripConv(g.Call.Args[0]), mu.Value) {
					okA = true
				}
			}
			c.check(r2, "newConnLocked:announces-own-channels", okA, "the connection announced is the record just registered under the key", p.ipos(g))
		} else {
			nw++
		}
	}
	c.check(r2, "newConnLocked:one-writer-one-announcement", nw == 1 && na == 1, fmt.Sprintf("%d writer goroutines, %d announcements per created connection", nw, na), p.pos(nc.Pos()))
	// channel roles of the logical connection: it reads from r and writes to w
	rd, wr := p.MustFn("goat.demuxConn.Read"), p.MustFn("goat.demuxConn.Write")
	c.check(r2, "demuxConn:channel-roles", p.recvsFromField(rd, "r") && !p.recvsFromField(rd, "w") && p.sendsOnField(wr, "w") && !p.sendsOnField(wr, "r"), "the logical connection reads from r and writes to w (swapping them compiles)", p.pos(rd.Pos()))
}

func ruleDemuxWriter(c *Ctx, rule string) {
	p := c.p
	// Cancel releases whatever connection is registered under a key *now*: it belongs to the owner of the demux. A
	// per-connection goroutine that calls it on its way out can close and forget the successor of its own connection.
	for _, cs := range p.Callers(p.MustFn("goat.Demux.Cancel")) {
		c.check(rule, "Cancel←"+p.cname(cs.caller), false, "Demux.Cancel (release by key) is called from inside the library: a late caller hits the connection that now owns the key", p.ipos(cs.instr))
	}
	c.trivial(rule, "Cancel:callers-inside-the-library", true, "who-may-call: Demux.Cancel is an owner-side API; in-library call sites are reported individually")
	rulePipeline(c, rule, func(q queueSpec) bool { return strings.HasPrefix(q.name, "demux.") }, false)
	w := p.fnByKey(p.roleFn("demux.connWriter"))
	for _, wr := range p.transportOps(w, "Write", false) {
		o := p.Origins().Of(wr.Call.Args[1])
		ok, why := o.AllMatch("recv(_)")
		c.check(rule, "connWriter:writes-what-it-received", ok, "the shared writer writes the received envelope unchanged: "+why, p.ipos(wr))
		c.check(rule, "connWriter:writes-to-shared-transport", p.locPathOfLoadDeep(wr.Call.Value) == "goat.Demux.rw", "writes go to the shared transport", p.ipos(wr))
	}
	for _, fk := range []string{"goat.demuxConn.Write"} {
		cw := p.MustFn(fk)
		for _, u := range p.chanUsesIn(cw) {
			if u.kind == "send" {
				c.check(rule, fk+":hands-the-envelope-itself", p.sameValue(sendOf(u), paramNamed(cw, "rpc")), "the logical connection hands over the envelope pointer itself", p.ipos(u.instr))
			}
		}
	}
	_, cw := p.rwClosures(p.MustFn("goat.NewGoatOverChannel"))
	for _, u := range p.chanUsesIn(cw) {
		if u.kind == "send" {
			c.check(rule, "chan.write:hands-the-envelope-itself", p.sameValue(sendOf(u), paramOfType(cw, "pb.Rpc")), "the channel transport hands over the envelope pointer itself", p.ipos(u.instr))
		}
	}
}

func (p *Prog) locPathOfLoadDeep(v ssa.Value) string {
	if s := p.locPathOfLoad(v); s != "" {
		return s
	}
	if ld, ok := v.(*ssa.UnOp); ok && ld.Op == token.MUL {
		if fa, ok := ld.X.(*ssa.FieldAddr); ok {
			if fk, ok := ownerKey(fa); ok {
				return fk.String()
			}
		}
	}
	return ""
}

func ruleDemuxRunEscapable(c *Ctx, rule string) {
	p := c.p
	run := p.MustFn("goat.Demux.Run")
	w := p.fnByKey(p.roleFn("demux.connWriter"))
	n := ruleEscapable(c, rule, []*ssa.Function{run, w}, nil, func(op *BlockOp, ctx ssa.Value) (bool, string) {
		return p.locPathOfLoadDeep(ctx) == "goat.Demux.ctx", "escape context " + p.lpath(ctx) + " (required: the demultiplexer's context, which Stop cancels)"
	})
	c.floor(rule, "blocking primitives in the demux loops", n, 3)
	// Stop cancels that context
	st := p.MustFn("goat.Demux.Stop")
	ok := false
	allInstrs(st, func(i ssa.Instruction) {
		if cl, ok2 := i.(*ssa.Call); ok2 && p.callbackField(cl.Call.Value) == "goat.Demux.cancel" {
			ok = true
		}
	})
	c.check(rule, "Stop:cancels", ok, "Stop calls the demultiplexer's cancel function", p.pos(st.Pos()))
}

func ruleChannelReadFailsAfterClose(c *Ctx, rule string, f *ssa.Function, name string) {
	p := c.p
	n := 0
	closable := func(ch ssa.Value) bool {
		cls := p.chanClass(ch)
		for _, u := range p.chanUses() {
			if u.kind == "close" && classesIntersect(cls, p.chanClass(u.ch)) {
				return true
			}
		}
		return false
	}
	isSignal := func(ch ssa.Value) bool {
		ct, ok := ch.Type().Underlying().(*types.Chan)
		if !ok {
			return false
		}
		st, ok := ct.Elem().Underlying().(*types.Struct)
		return ok && st.NumFields() == 0
	}
	allInstrs(f, func(i ssa.Instruction) {
		var okV ssa.Value
		switch x := i.(type) {
		case *ssa.Select:
			for si, st := range x.States {
				if st.Dir != types.RecvOnly || p.chanDesc(st.Chan) == "Done()" {
					continue
				}
				n++
				desc := p.chanDesc(st.Chan)
				if !closable(st.Chan) {
					c.trivial(rule, name+":"+desc+":never-closed", true, "this channel is never closed in scope: a receive cannot observe closure", p.ipos(i))
					continue
				}
				if isSignal(st.Chan) {
					// a closed signal channel: the branch it selects must fail the read
					idx := extractOf(x, 0)
					found := false
					for _, r := range returnsOf(f) {
						if idx != nil && p.Facts(r).Eq("const:"+itoa(si), p.lpath(idx)) {
							found = true
							v := retVals(r)
							ok2, why := p.provablyNonNilErr(v[len(v)-1], r)
							c.check(rule, name+":"+desc+":closed⇒error", ok2, "when the closure signal fires the read returns "+why, p.ipos(r))
						}
					}
					c.check(rule, name+":"+desc+":signal-branch-returns", found, "the branch selected by the closure signal returns", p.ipos(i))
					continue
				}
				if e := extractOf(x, 1); e != nil {
					okV = e
				} else {
					c.check(rule, name+":comma-ok", false, "receive from a channel that may be closed does not test for closure", p.ipos(i))
				}
			}
		case *ssa.UnOp:
			if x.Op == token.ARROW {
				n++
				if !closable(x.X) {
					c.trivial(rule, name+":"+p.chanDesc(x.X)+":never-closed", true, "this channel is never closed in scope", p.ipos(i))
					return
				}
				if x.CommaOk {
					okV = extractOf(x, 1)
				}
				if okV == nil {
					c.check(rule, name+":comma-ok", false, "receive from a channel that may be closed does not test for closure", p.ipos(i))
				}
			}
		}
		if okV == nil {
			return
		}
		found := false
		for _, r := range returnsOf(f) {
			if p.Facts(r).False(p.lpath(okV)) {
				found = true
				v := retVals(r)
				ok2, why := p.provablyNonNilErr(v[len(v)-1], r)
				c.check(rule, name+":closed⇒error", ok2, "on the closed branch the read returns "+why, p.ipos(r))
			}
		}
		c.check(rule, name+":comma-ok", found, "the receive tests for closure and the closed branch returns", p.ipos(i))
	})
	c.floor(rule, "receives in "+name, n, 1)
}

// ruleWriteFailsAfterCancel: a write on a logical connection selects on the connection's closure signal and the
// branch it selects returns a provably non-nil error.
func ruleWriteFailsAfterCancel(c *Ctx, rule string, f *ssa.Function, name string) {
	p := c.p
	n := 0
	allInstrs(f, func(i ssa.Instruction) {
		sel, ok := i.(*ssa.Select)
		if !ok {
			return
		}
		hasSend := false
		for _, st := range sel.States {
			if st.Dir == types.SendOnly {
				hasSend = true
			}
		}
		if !hasSend {
			return
		}
		n++
		okSig := false
		for si, st := range sel.States {
			if st.Dir != types.RecvOnly || p.chanDesc(st.Chan) == "Done()" {
				continue
			}
			closed := false
			for _, u := range p.chanUses() {
				if u.kind == "close" && classesIntersect(p.chanClass(st.Chan), p.chanClass(u.ch)) {
					closed = true
				}
			}
			if !closed {
				continue
			}
			idx := extractOf(sel, 0)
			for _, r := range returnsOf(f) {
				if idx != nil && p.Facts(r).Eq("const:"+itoa(si), p.lpath(idx)) {
					v := retVals(r)
					if ok2, _ := p.provablyNonNilErr(v[len(v)-1], r); ok2 {
						okSig = true
					}
				}
			}
		}
		c.check(rule, name+":cancelled⇒error", okSig, "a write on a cancelled connection fails (its select has the closure signal as a case whose branch returns an error) instead of blocking for ever", p.ipos(i))
	})
	c.floor(rule, "send selects in "+name, n, 1)
}

// ruleFreshPeerQueue: every peer record gets its own, freshly made outgoing queue. Reusing a queue (e.g. of the record
// being replaced on re-attach) gives it two write loops: envelopes for the newer connection go to the replaced one.
func ruleFreshPeerQueue(c *Ctx, rule string) {
	p := c.p
	n := 0
	for _, s := range p.FieldStores(fieldKey{"goat.proxyClient", "fromServer"}) {
		n++
		_, isMake := s.Val.(*ssa.MakeChan)
		c.check(rule, p.cname(s.Parent())+":fresh-outgoing-queue", isMake, "a peer record's outgoing queue is made for that record ("+p.Origins().Of(s.Val).String()+")", p.ipos(s))
	}
	c.floor(rule, "peer record constructions", n, 2)
	// and a record's connection is what its own loops read and write (no sharing of conn between records)
	for _, s := range p.FieldStores(fieldKey{"goat.proxyClient", "toServer"}) {
		c.check(rule, p.cname(s.Parent())+":reports-to-the-proxy-queue", p.locPathOfLoad(s.Val) == "goat.Proxy.commands", "every peer reports into the proxy's single command queue", p.ipos(s))
	}
}
