#!/bin/bash
# runs the thorough tier of every property and prints a one-line summary each
cd /verif
for i in 01 02 03 04 05 06 07 08 09 10 11 12 13 14 15 16 17 18 19 20; do
  bin/check C$i thorough > /tmp/th_C$i.txt 2>&1; rc=$?
  python3 - C$i $rc <<'PY'
import json,sys
p,rc=sys.argv[1],sys.argv[2]
d=json.load(open(f'/verif/evidence/{p}.json'))
sv=d['coverage'].get('seeded_variants',{})
print(p,'rc='+rc,'wall=%.0fs'%d['wall_s'],{k:sv.get(k) for k in ['variants','reported','benign_silent','skipped']},'missed',sv.get('missed'),'FA',sv.get('false_alarms'))
for r in sv.get('results',[]):
    if 'ok' not in r['result']: print('    ',r['variant'],r['result'],r['detail'][:300])
PY
done
