// Package goatorepo: minimal stand-in for the generated protobuf package (positive-control fixture).
package goatorepo

type RequestHeader struct {
	Method      string
	Source      string
	Destination string
}

func (h *RequestHeader) GetMethod() string {
	if h != nil {
		return h.Method
	}
	return ""
}

type Body struct{ Data []byte }

type Rpc struct {
	Id     uint64
	Header *RequestHeader
	Body   *Body
}

func (r *Rpc) GetHeader() *RequestHeader {
	if r != nil {
		return r.Header
	}
	return nil
}

func (r *Rpc) GetId() uint64 {
	if r != nil {
		return r.Id
	}
	return 0
}
