#!/usr/bin/env python3
"""For every breaking variant: runs the checks of the filing property and of the also-properties only and reports
where the recorded verdict no longer holds (cheap stand-in for the thorough tier's breaking side)."""
import json, glob, os, re, subprocess, tempfile, shutil, sys
from concurrent.futures import ThreadPoolExecutor
env=dict(os.environ, GOFLAGS="-mod=mod", GOPROXY="off", GOSUMDB="off", GOTOOLCHAIN="local"); env.pop("GOWORK",None)
def run(d):
    m=json.load(open(d+"meta.json"))
    if m.get("kind")!="breaking": return None
    s=tempfile.mkdtemp(prefix="goatvb")
    try:
        subprocess.run(["rsync","-a","--exclude",".git","/repo/",s+"/"],check=True)
        r=subprocess.run(["patch","-p1","-s","--forward","--no-backup-if-mismatch","-d",s,"-i",d+"patch.diff"],capture_output=True)
        if r.returncode!=0: return (m["id"],["patch does not apply"])
        os.makedirs(s+"/.verif"); shutil.copy("/verif/known_findings.json",s+"/.verif/")
        bad=[]
        for p in [m["property"]]+m.get("also_properties",[]):
            o=subprocess.run(["/verif/bin/goatcheck",p,"quick"],capture_output=True,text=True,env=dict(env,GOAT_REPO=s,VERIF_DIR=s+"/.verif")).stdout
            rules=set(re.findall(r"^(?:VIOLATION|UNDECIDED) (C\d\d\.\w+)",o,re.M))
            if "\nVIOLATION property" not in "\n"+o: bad.append(p+": silent")
            elif p==m["property"] and m.get("expect") and not (rules & set(m["expect"])): bad.append(p+": reports %s, expected one of %s"%(sorted(rules),m["expect"]))
        return (m["id"],bad)
    finally: shutil.rmtree(s,ignore_errors=True)
n=0
with ThreadPoolExecutor(8) as ex:
    for r in ex.map(run,sorted(glob.glob("/verif/seeded/*/"))):
        if r:
            n+=1
            if r[1]: print(r[0],r[1])
print(n,"breaking variants verified")
